#!/venv/bin/python
"""Make a patch against /repo HEAD by exact string replacement in a scratch worktree.
usage: mkpatch.py out.diff <file> <old> <new> [<file> <old> <new> ...]"""
import os, shutil, subprocess, sys, tempfile
out, rest = sys.argv[1], sys.argv[2:]
tmp = tempfile.mkdtemp(prefix='verif_mk_')
repo = os.path.join(tmp, 'r')
try:
    subprocess.check_call(['git', '-C', '/repo', 'worktree', 'add', '--detach', '-q', repo, 'HEAD'])
    for i in range(0, len(rest), 3):
        f, old, new = rest[i:i + 3]
        p = os.path.join(repo, f)
        s = open(p).read()
        if s.count(old) != 1:
            sys.exit('pattern occurs %d times in %s: %r' % (s.count(old), f, old))
        open(p, 'w').write(s.replace(old, new))
    d = subprocess.check_output(['git', '-C', repo, 'diff'])
    open(out, 'wb').write(d)
    print('wrote', out, len(d), 'bytes')
finally:
    subprocess.call(['git', '-C', '/repo', 'worktree', 'remove', '--force', repo])
    shutil.rmtree(tmp, ignore_errors=True)
