#!/bin/bash
# run every check of a tier sequentially; print exit code and wall time per check (+ capped scenarios)
tier=${1:-quick}; shift
ids=${@:-C01 C02 C03 C04 C05 C06 C07 C08 C09 C10 C11 C12 C13 C14 C15 C16 C17 C18 C19 C20}
cd "$(dirname "$0")/.."
tmp=$(mktemp -d)
for id in $ids; do
  s=$(date +%s.%N)
  out=$(./check $id --tier $tier 2>$tmp/$id.err); rc=$?
  e=$(date +%s.%N)
  printf "%s rc=%d %6.1fs %s\n" $id $rc $(echo "$e - $s" | bc) "$(echo "$out" | grep -c -E '^(VIOLATION|KNOWN)') lines; $(tail -1 $tmp/$id.err | cut -c1-110)"
  grep -E "CAPPED|misbehaves" $tmp/$id.err | cut -c1-150
  if [ "$VERIF_SHOW_SCEN" = 1 ]; then grep -E "^\[$id\] .*states=" $tmp/$id.err | cut -c1-130; fi
done
rm -rf $tmp
