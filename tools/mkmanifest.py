#!/venv/bin/python
"""Regenerate /verif/MANIFEST.json from the table below (keeps it schema-valid)."""
import json
import os

HERE = os.path.dirname(os.path.dirname(os.path.abspath(__file__)))
base = json.load(open('/root/.vp/BASELINE.json'))

BFS = 'explicit-state BFS over event histories of the real client (history replay, canonical state hashing)'
ENUM = 'exhaustive bounded input enumeration of the real codec against an independent reference codec'

# id: (design_ref, technique, text, note)
CHECKS = {
 'C01': ('2 C01', ENUM, 'Complete enumeration of the bounded input grid (all 65536 16-bit values, all remaining lengths near every boundary and a dense range, every Unicode scalar value as a 1-char string, every length class, every flag combination of all 14 packets) through the real encode/decode; decoded fields must equal the encoded ones and encoding twice gives equal bytes.', 'Bounded grid stands for the unbounded value space; strings are covered per code point and per length class, not every string.'),
 'C02': ('2 C02', ENUM + ' + BFS of live sessions comparing every transport.write with the reference encoding', 'Same grid as C01 for both protocol levels compared byte-for-byte with a reference encoder written from the OASIS text; broker packets from the reference encoder must decode to the reference field values; unrepresentable inputs must raise ValueError/TypeError; plus a bounded exploration of live sessions where every write is compared with the reference encoding computed from the API arguments.', 'The reference codec (mc/refcodec.py, self-tested against the byte examples printed in the specification) is trusted.'),
 'C03': ('3 C03', 'exhaustive enumeration of all 2^(n-1) chunk compositions by dynamic programming over cut positions on the real dataReceived, plus brute force for short streams', 'All 2^(n-1) compositions of streams holding every broker packet type are covered by dynamic programming over cut positions on the real dataReceived (S_j = distinct (canonical state, action list) after bytes[0:j) in any chunking; every member must be an action-prefix of the one-packet-per-chunk run, which is itself compared with an absolute reference model of the receive side); all compositions of six short streams by brute force; 1/2/3-cut placements and byte-at-a-time header delivery for 3- and 4-byte remaining lengths; cross-connection cases (connection lost mid-packet, partial packet while another address receives).', 'Merging in the DP relies on the full generic state dump + observation log being the key.'),
 'C04': ('3 C04', BFS + ' + full sweep of 256 return codes', 'All 256 CONNACK return codes x session-present x 3 profiles x keepalive {0,k} x 2 versions x 2 transport modes as single-path executions, plus BFS over connect/CONNACK/duplicate CONNACK/timeout/loss/rebuild orderings with a monitor demanding exactly one CONNECT, exactly one firing of the Deferred with the prescribed outcome, idle after loss and exactly one onDisconnection per loss.', 'Bounded depth; virtual reactor and transport stand for Twisted.'),
 'C05': ('3 C05', BFS, 'All interleavings (within budgets) of publishes at mixed QoS, fitting acks to every outstanding, completed, held-back or never-issued id, early PUBCOMP, timer expiries, window changes, publishing while connecting, re-entrant publish from a callback, and a loss scenario; monitor: QoS0 already succeeded, QoS>0 success only in the step delivering the completing ack for a transmitted message and that ack does complete it, value == msgId == wire id, duplicate/unknown acks leave the canonical state unchanged, no failure without loss, each Deferred fires exactly once by the end of the closing phase.', 'Windows 1..3 stand for 1..16; random walks of the quantifier are replaced by exhaustive bounded search.'),
 'C06': ('3 C06', BFS, 'All sequences (within budgets) of inbound PUBLISH (QoS, DUP, RETAIN, ids, payload kinds) and PUBREL incl. repeats, unknown ids and loss+reconnect (clean/persistent); a reference receiver demands exact delivery fields, QoS2 exactly-once per exchange, one PUBACK/PUBREC/PUBCOMP per prompt and nothing unprompted.', 'Well-behaved-or-repeating broker: after a clean reconnect it does not release ids of the discarded session.'),
 'C07': ('3 C07', BFS, 'All interleavings (within budgets) of subscribe/unsubscribe in all argument shapes, window changes, SUBACK/UNSUBACK to outstanding/completed/foreign ids with a menu of granted lists, expiries, loss+reconnect in both session modes, closed by a broker that answers everything; monitor per statement clause (one packet per call, exact topics, fresh id, single firing with the granted pairs/id, window error iff window full, nothing pending at the end).', 'Windows 1..3.'),
 'C08': ('3 C08', BFS, 'For each retransmittable kind x protocol version x timeout/bandwidth/factor/payload (2 B, 1 kB, 20 kB) configuration: up to k consecutive expiries interleaved with acks (also of the wrong type), jitter changes, window changes with a held-back message, persistent reconnect; monitor per in-flight packet: a copy on every expiry of its timer, identical content, DUP rules per version, copies only on own expiry or session resumption, exactly one retry timer while unacknowledged on a live connection, gap >= initial timeout, PUBLISH gaps (jitter subtracted exactly) non-decreasing, no exception from a timer.', 'Configuration menu instead of all 1..1024 timeouts.'),
 'C09': ('3 C09', BFS, 'QoS 2 publishes with PUBREC/PUBCOMP in/out of order/duplicated, expiries of both timers, loss + persistent reconnect at every point; monitor per id: PUBREL only after PUBREC, no PUBLISH after first PUBREL, completion only on PUBCOMP or session discard.', 'Bounded budgets.'),
 'C10': ('3 C10', BFS, 'Windows 1..3 changed at any time, up to 3-5 publishes of any QoS mix, acks in any order, publishing while connecting, persistent reconnects; after every step: in-flight <= window at each first transmission, first transmissions in publish() order exactly once, valid publish never refused, nothing stranded while connected with no exchange outstanding.', 'Windows 1..3 stand for 1..16.'),
 'C11': ('3 C11', BFS, 'Clean-session histories with requests in every stage cut at every prefix by every loss kind (broker close, network, abort after corrupt packet, keepalive timeout, CONNACK timeout, disconnect) in both transport modes, then rebuild + further traffic; every pending Deferred fails exactly once with the loss reason in the loss step; the next connection carries only its own requests.', 'Bounded budgets.'),
 'C12': ('3 C12', BFS, 'Persistent-session histories cut by up to k losses, each followed by a rebuilt protocol connecting persistent or clean, publishing before and after CONNACK; monitor: loss fails nothing, CONNACK step re-sends carried-over PUBLISH (DUP, same id/content, order) and PUBREL only for released ids, clean connect fails carried-over with MQTTSessionCleared, requests of the new connection untouched.', 'Bounded budgets.'),
 'C13': ('3 C13', BFS + ' with a clock drain from every visited state', 'Union alphabet in all profiles; after every step: each retry alarm belongs to an unsettled request of a live connection, one per request, no timer when idle-connected with keepalive off, no write after reported loss; then the clock is drained for 5000 virtual seconds from every state: nothing is written for settled requests and no timer of a lost connection remains.', 'Drain uses default tie order.'),
 'C14': ('3 C14', BFS + ' with one-step probes of every operation and packet type in every reached state', 'Every (profile x protocol phase) is reached by exploration; in each state every API operation and every broker packet type is probed on a fresh replay; disallowed ones must fail with MQTTStateError (raise for disconnect), write nothing and leave the canonical state unchanged; allowed ones must be honoured.', 'connect() on an idle-again protocol may be honoured or refused.'),
 'C15': ('3 C15', BFS + ' and a sweep of keepalive values through a fixed script', 'Keepalive k in {0,2,3}: PINGRESP in time / exactly at k in both tie orders / late / never / twice / unsolicited, other traffic, loss and rebuild, several periods deep; monitor: PINGREQ spacing <= k, abort iff k elapsed unanswered, never closes when answered, nothing for k=0, no keepalive activity after loss.', 'All 65535 values only through one script.'),
 'C16': ('3 C16', 'exhaustive injection of a bounded set of byte strings into every base state of the real client', 'Exhaustive injection (about 5*10^5 inputs in the quick tier, each into a freshly replayed base state): all byte strings up to length 3/4/5 over two 16-symbol alphabets, every first byte x short bodies, every single-byte mutation/truncation/extension of every valid broker packet, invalid UTF-8, all 512 CONNACKs, two- and three-frame sequences, into 3 profiles x 2 transport modes x 6 base states (fresh, connecting, connected idle, busy with one pending request of each kind and keepalive ping outstanding, protocol 3.1 persistent, connecting with a carried-over session); no exception escapes dataReceived/connectionLost/timers, no onPublish / Deferred success / unexpected write that a structurally well-formed frame of the input does not justify, every request settled after the connection ends.', 'Structural notion of well-formed.'),
 'C17': ('3 C17', BFS, 'Identifier monitor on request/ack explorations started with the counter placed at 65530..65535 (or just below a held-back identifier) after one unfinished request per stage exists (awaiting PUBACK, PUBREC, PUBCOMP, SUBACK, UNSUBACK, held back, preserved by a persistent session, on another address), plus one deterministic 70000-request execution that wraps on its own with an old request outstanding.', 'Bounded budgets.'),
 'C18': ('3 C18', BFS, 'Strict reference parse of the concatenated writes of every connection in all profiles and both transport modes, including API calls and expiries between close request and loss report: complete client packets only, CONNECT first and once, DISCONNECT only from disconnect() with close request and last, nothing after reported loss.', 'Strict decoder per connection protocol level.'),
 'C19': ('3 C19', BFS + ' with a differential two-factory oracle', 'Product exploration over two addresses on one factory; every history is also executed with one factory per address; per-address observation logs (writes with ids renamed by first use, Deferred outcomes, callbacks, timers) must coincide after every step, and ids never collide on the shared factory.', 'Bounded budgets.'),
 'C20': ('3 C20', 'exhaustive enumeration of the argument boundary grid in every base state of the real client', 'Boundary grid of every argument of every API entry point in every state/profile that allows the call: invalid values must raise / fail with ValueError or TypeError and leave state, transport, timers and queues unchanged; valid ones must be accepted.', 'Id counter not compared.'),
}

IMPLEMENTED = json.load(open(os.path.join(HERE, 'tools', 'implemented.json')))

checks, na = [], []
for pid in sorted(CHECKS):
    ref, tech, text, note = CHECKS[pid]
    if pid in IMPLEMENTED:
        checks.append({
            'property_id': pid,
            'quick_cmd': './check %s --tier quick' % pid,
            'thorough_cmd': './check %s --tier thorough' % pid,
            'evidence_file': '/verif/evidence/%s.json' % pid,
            'replay_cmd_template': './check %s --replay {path}' % pid,
            'engine': 'mc',
            'level_claimed': {'category': 'model_checking', 'text': text, 'design_ref': 'DESIGN.md section ' + ref},
            'level_note': note + ' Trusted base: harness (virtual reactor, transport, canonicaliser), reference codec, CPython/Twisted.',
            'technique': tech,
        })
    else:
        na.append({'property_id': pid, 'reason': 'check not built yet (work in progress; model checking applies, see DESIGN.md section %s)' % ref})

m = {
    'version': 1,
    'setup_cmd': 'cd /verif && /venv/bin/python -m mc.selftest',
    'hooks': {
        'guard': 'TWISTED_MQTT_VERIF',
        'enable': 'no source hooks: the harness installs a virtual reactor before importing mqtt and replaces '
                  'mqtt.client.interval.random and the module loggers from outside (DESIGN 1.1); ./check exports the guard anyway',
        'baseline_off_cmd': base['cmd'].replace('--junitxml=<file>', '--junitxml=/tmp/verif_baseline.junit.xml'),
        'source_commits': [],
        'add_only': True,
    },
    'engines': [{'name': 'mc', 'path': '/verif/mc', 'serves_properties': sorted(IMPLEMENTED),
                 'kind_free_text': 'hand-written replay-based explicit-state explorer using the real twisted-mqtt '
                                   'code as transition function (virtual reactor, harness transport, symbolic '
                                   'events, generic object-graph canonicaliser, per-property monitors) and '
                                   'exhaustive bounded enumerations against an independent reference codec'}],
    'checks': checks,
    'not_applicable': na,
    'notes': 'DESIGN.md explains approach, bounds, known findings (known_findings.json) and seeded changes (seeded/).',
}
json.dump(m, open(os.path.join(HERE, 'MANIFEST.json'), 'w'), indent=1)
try:
    import jsonschema
    jsonschema.validate(m, json.load(open('/root/.vp/MANIFEST.schema.json')))
    print('MANIFEST valid; %d checks, %d not_applicable' % (len(checks), len(na)))
except ImportError:
    print('MANIFEST written (jsonschema not available in this interpreter)')
