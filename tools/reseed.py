#!/venv/bin/python
"""Re-validate every seeded change under /verif/seeded against the CURRENT /repo HEAD and the CURRENT checks.

For each seeded/<name>: scratch worktree of /repo HEAD; apply patch.diff (3-way merge if the repository moved on, the
merged diff then replaces patch.diff); confirm baseline (85 stable tests) and demo (fails with, passes without); run
the quick check of the property it breaks (plus any other checks already recorded as detecting it, with --all) and
record the verdict in meta.json under "checks".  Nothing is applied to /repo itself.

usage: reseed.py [--all] [--only NAME[,NAME]] [--jobs N]
"""
import argparse
import glob
import json
import os
import shutil
import subprocess
import sys
import tempfile
import time

ap = argparse.ArgumentParser()
ap.add_argument('--all', action='store_true', help='also re-run the neighbour checks recorded in meta')
ap.add_argument('--only', default='')
a = ap.parse_args()
only = set(x for x in a.only.split(',') if x)
head = subprocess.check_output(['git', '-C', '/repo', 'rev-parse', '--short', 'HEAD']).decode().strip()
summary = []
for mp in sorted(glob.glob('/verif/seeded/*/meta.json')):
    d = os.path.dirname(mp)
    m = json.load(open(mp))
    name = m['name']
    if only and name not in only:
        continue
    if m.get('status') == 'obsolete':
        continue
    if not only and m.get('revalidation', {}).get('repo_head') == head and 'still_a_valid_seed' in m.get('revalidation', {}):
        continue        # already done at this HEAD (resume)
    tmp = tempfile.mkdtemp(prefix='verif_reseed_')
    repo = os.path.join(tmp, 'repo')
    try:
        subprocess.check_call(['git', '-C', '/repo', 'worktree', 'add', '--detach', '-q', repo, 'HEAD'])
        shutil.copy('/repo/src/mqtt/_version.py', os.path.join(repo, 'src/mqtt/_version.py'))
        patch = os.path.join(d, 'patch.diff')
        r = subprocess.run(['git', '-C', repo, 'apply', patch], stderr=subprocess.PIPE, text=True)
        if r.returncode:
            r = subprocess.run(['git', '-C', repo, 'apply', '--3way', patch], stderr=subprocess.PIPE, text=True)
            if r.returncode:
                m['revalidation'] = {'repo_head': head, 'result': 'patch no longer applies (conflicts with a later fix: commit)'}
                json.dump(m, open(mp, 'w'), indent=1)
                summary.append((name, 'NOAPPLY', ''))
                print(name, 'PATCH DOES NOT APPLY')
                continue
            diff = subprocess.check_output(['git', '-C', repo, 'diff', 'HEAD'])
            shutil.copy(patch, os.path.join(d, 'patch.orig.diff')) if not os.path.exists(os.path.join(d, 'patch.orig.diff')) else None
            open(patch, 'wb').write(diff)
        env = dict(os.environ, PYTHONPATH=os.path.join(repo, 'src'), PYTHONDONTWRITEBYTECODE='1')
        env.pop('TWISTED_MQTT_VERIF', None)
        b = subprocess.run(['/verif/tools/baseline.py', repo], stdout=subprocess.PIPE, text=True)
        demo = subprocess.run(['/venv/bin/python', os.path.join(d, 'demo.py')], env=env, cwd=tmp, stdout=subprocess.PIPE,
                              stderr=subprocess.STDOUT, text=True, timeout=600)
        subprocess.check_call(['git', '-C', repo, 'reset', '-q', '--hard', 'HEAD'])
        shutil.copy('/repo/src/mqtt/_version.py', os.path.join(repo, 'src/mqtt/_version.py'))
        demo0 = subprocess.run(['/venv/bin/python', os.path.join(d, 'demo.py')], env=env, cwd=tmp, stdout=subprocess.PIPE,
                               stderr=subprocess.STDOUT, text=True, timeout=600)
        subprocess.check_call(['git', '-C', repo, 'apply', patch])
        ok = b.returncode == 0 and demo.returncode != 0 and demo0.returncode == 0
        checks = [m['breaks_property']]
        if a.all:
            checks += [k for k, v in m.get('checks', {}).items() if v.get('verdict') == 'detected' and k not in checks]
        res = {}
        out = os.path.join(tmp, 'out')
        for pid in checks:
            t = time.time()
            rr = subprocess.run(['/verif/check', pid, '--tier', 'quick'], env=dict(os.environ, VERIF_REPO=repo, VERIF_OUT=out),
                                stdout=subprocess.PIPE, stderr=subprocess.PIPE, text=True)
            viol = [l.split('replay=')[1].split('/')[-1].replace('.json', '') for l in rr.stdout.splitlines() if l.startswith('VIOLATION')]
            verdict = 'detected' if rr.returncode == 1 and viol else ('missed' if rr.returncode == 0 else 'error rc=%d' % rr.returncode)
            res[pid] = {'verdict': verdict, 'tier': 'quick', 'signatures': viol[:8], 'wall_s': round(time.time() - t, 1)}
        m.setdefault('checks', {}).update(res)
        m['repo_head'] = head
        m['revalidation'] = {'repo_head': head, 'baseline_ok': b.returncode == 0, 'demo_with_patch_exit': demo.returncode,
                             'demo_without_patch_exit': demo0.returncode, 'still_a_valid_seed': ok}
        json.dump(m, open(mp, 'w'), indent=1)
        own = res[m['breaks_property']]['verdict']
        summary.append((name, 'valid' if ok else 'INVALID', own))
        print(name, 'valid' if ok else 'INVALID(baseline=%s demo=%d/%d)' % (b.returncode == 0, demo.returncode, demo0.returncode), own,
              ';'.join(res[m['breaks_property']]['signatures'][:3]))
        sys.stdout.flush()
    finally:
        subprocess.call(['git', '-C', '/repo', 'worktree', 'remove', '--force', repo])
        shutil.rmtree(tmp, ignore_errors=True)
print('SUMMARY: %d seeds; invalid/not applying: %s; own check missed: %s' % (
    len(summary), [n for n, s, o in summary if s != 'valid'], [n for n, s, o in summary if s == 'valid' and o != 'detected']))
