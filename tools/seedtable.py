#!/venv/bin/python
"""Print a markdown table of /verif/seeded/*/meta.json (which check catches which change)."""
import glob, json, os
rows = []
for mp in sorted(glob.glob('/verif/seeded/*/meta.json')):
    m = json.load(open(mp))
    det = [k for k, v in m.get('checks', {}).items() if v['verdict'] == 'detected']
    mis = [k for k, v in m.get('checks', {}).items() if v['verdict'] == 'missed']
    sig = []
    for k in det:
        sig += m['checks'][k]['signatures'][:2]
    need = (m.get('summary') or m.get('needs_to_manifest', ''))[:150].replace('|', '/').replace('\n', ' ')
    if m.get('status') == 'obsolete':
        det = ['(obsolete: ' + m['obsolete_reason'][:70] + '...) earlier: ' + ', '.join(det)]
    rows.append('| %s | %s | %s | %s | %s |' % (m['name'], m['breaks_property'], ', '.join(det) or '-', ', '.join(mis) or '-', '; '.join(sig)[:110]))
print('| seeded change | breaks | detected by (quick tier) | not detected by | first signatures |')
print('|---|---|---|---|---|')
print('\n'.join(rows))
