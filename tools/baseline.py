#!/venv/bin/python
"""Run the repository's pinned baseline (command from /root/.vp/BASELINE.json) and compare with stable_pass.
usage: baseline.py [repo_dir]   exit 0 iff every stable test passes."""
import json, os, subprocess, sys, tempfile, xml.etree.ElementTree as ET
repo = sys.argv[1] if len(sys.argv) > 1 else '/repo'
base = json.load(open('/root/.vp/BASELINE.json'))
fd, path = tempfile.mkstemp(suffix='.xml'); os.close(fd)
env = dict(os.environ); env.pop('TWISTED_MQTT_VERIF', None); env['PYTHONDONTWRITEBYTECODE'] = '1'
if repo != '/repo':
    env['PYTHONPATH'] = os.path.join(repo, 'src')
cmd = ['/venv/bin/python', '-m', 'pytest', '-ra', '-q', '-p', 'no:cacheprovider', '--timeout=900',
       '--continue-on-collection-errors', '--junitxml=' + path]
p = subprocess.run(cmd, cwd=repo, env=env, stdout=subprocess.PIPE, stderr=subprocess.STDOUT, text=True)
passed = set()
for tc in ET.parse(path).getroot().iter('testcase'):
    if not any(ch.tag in ('failure', 'error', 'skipped') for ch in tc):
        passed.add('%s::%s' % (tc.get('classname'), tc.get('name')))
os.unlink(path)
missing = [t for t in base['stable_pass'] if t not in passed]
print('passed=%d stable=%d missing=%d' % (len(passed), len(base['stable_pass']), len(missing)))
for t in missing: print('  MISSING', t)
if repo != '/repo':
    tail = [l for l in p.stdout.splitlines() if 'rootdir' in l or 'src/mqtt' in l][:2]
sys.exit(1 if missing else 0)
