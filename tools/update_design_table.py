#!/venv/bin/python
"""Replace the seeded-changes table in DESIGN.md (8.5) by the current output of tools/seedtable.py."""
import subprocess
p = '/verif/DESIGN.md'
lines = open(p).read().split('\n')
hdr = '| seeded change | breaks | detected by (quick tier) | not detected by | first signatures |'
starts = [i for i, l in enumerate(lines) if l == hdr]
assert len(starts) == 1, starts
i = starts[0]
j = i
while j < len(lines) and lines[j].startswith('|'):
    j += 1
new = subprocess.check_output(['/verif/tools/seedtable.py']).decode().rstrip('\n').split('\n')
assert new[0] == hdr and len(new) > 100
out = lines[:i] + new + lines[j:]
open(p, 'w').write('\n'.join(out))
print('table rows: %d -> %d' % (j - i - 2, len(new) - 2))
