#!/venv/bin/python
"""Take a sub-agent's seeded change in: confirm it myself, run checks against it, file it under /verif/seeded/.

usage: intake.py <name> <patch.diff> <demo.py> <property> [--needs TEXT] [--checks C05,C13] [--tier quick]

Confirms in a scratch worktree of /repo HEAD (removed afterwards):
  1. the patch applies, 2. the 85-test baseline still passes, 3. the demo exits non-zero WITH the patch and
  zero WITHOUT it.  Then runs the named checks (default: the property's own check) against the patched copy
  and records which detect it.  Nothing is ever applied to /repo itself.
"""
import argparse
import json
import os
import shutil
import subprocess
import sys
import tempfile
import time

ap = argparse.ArgumentParser()
ap.add_argument('name')
ap.add_argument('patch')
ap.add_argument('demo')
ap.add_argument('prop')
ap.add_argument('--needs', default='')
ap.add_argument('--checks', default='')
ap.add_argument('--tier', default='quick')
ap.add_argument('--source', default='sub-agent given only the property text and a scratch worktree')
a = ap.parse_args()

dest = os.path.join('/verif/seeded', a.name)
tmp = tempfile.mkdtemp(prefix='verif_intake_')
repo = os.path.join(tmp, 'repo')
meta = {'name': a.name, 'breaks_property': a.prop, 'needs_to_manifest': a.needs, 'source': a.source,
        'repo_head': subprocess.check_output(['git', '-C', '/repo', 'rev-parse', '--short', 'HEAD']).decode().strip()}
ok = True
try:
    subprocess.check_call(['git', '-C', '/repo', 'worktree', 'add', '--detach', '-q', repo, 'HEAD'])
    shutil.copy('/repo/src/mqtt/_version.py', os.path.join(repo, 'src/mqtt/_version.py'))
    env = dict(os.environ, PYTHONPATH=os.path.join(repo, 'src'), PYTHONDONTWRITEBYTECODE='1')
    env.pop('TWISTED_MQTT_VERIF', None)
    r0 = subprocess.run(['/venv/bin/python', os.path.abspath(a.demo)], env=env, cwd=tmp, stdout=subprocess.PIPE, stderr=subprocess.STDOUT, text=True, timeout=300)
    meta['demo_without_patch_exit'] = r0.returncode
    r = subprocess.run(['git', '-C', repo, 'apply', os.path.abspath(a.patch)], stderr=subprocess.PIPE, text=True)
    if r.returncode:
        # the repository moved on (later fix: commits) since the patch was written: merge it
        r = subprocess.run(['git', '-C', repo, 'apply', '--3way', os.path.abspath(a.patch)], stderr=subprocess.PIPE, text=True)
        meta['applied_with_3way_merge'] = r.returncode == 0
        if r.returncode == 0:
            d = subprocess.check_output(['git', '-C', repo, 'diff', 'HEAD'])
            open(os.path.abspath(a.patch) + '.rebased', 'wb').write(d)
            a.patch = os.path.abspath(a.patch) + '.rebased'
    meta['patch_applies'] = r.returncode == 0
    if r.returncode:
        print('PATCH DOES NOT APPLY:', r.stderr)
        sys.exit(1)
    b = subprocess.run(['/verif/tools/baseline.py', repo], stdout=subprocess.PIPE, text=True)
    meta['baseline_with_patch'] = b.stdout.strip().splitlines()[0]
    meta['baseline_ok'] = b.returncode == 0
    r1 = subprocess.run(['/venv/bin/python', os.path.abspath(a.demo)], env=env, cwd=tmp, stdout=subprocess.PIPE, stderr=subprocess.STDOUT, text=True, timeout=300)
    meta['demo_with_patch_exit'] = r1.returncode
    meta['demo_with_patch_tail'] = r1.stdout.strip().splitlines()[-3:]
    ok = meta['baseline_ok'] and r0.returncode == 0 and r1.returncode != 0
    print('applies=%s baseline=%s demo(without)=%d demo(with)=%d => %s' % (meta['patch_applies'], meta['baseline_with_patch'],
                                                                          r0.returncode, r1.returncode, 'CONFIRMED' if ok else 'REJECTED'))
    if not ok:
        print(r0.stdout[-800:] if r0.returncode else '')
        print(r1.stdout[-800:])
    checks = [c for c in a.checks.split(',') if c] or [a.prop]
    results = {}
    if ok:
        out = os.path.join(tmp, 'out')
        for pid in checks:
            t = time.time()
            e2 = dict(os.environ, VERIF_REPO=repo, VERIF_OUT=out)
            rr = subprocess.run(['/verif/check', pid, '--tier', a.tier], env=e2, stdout=subprocess.PIPE, stderr=subprocess.PIPE, text=True)
            viol = [l.split('replay=')[1].split('/')[-1].replace('.json', '') for l in rr.stdout.splitlines() if l.startswith('VIOLATION')]
            verdict = 'detected' if rr.returncode == 1 and viol else ('missed' if rr.returncode == 0 else 'error rc=%d' % rr.returncode)
            results[pid] = {'verdict': verdict, 'tier': a.tier, 'signatures': viol[:8], 'wall_s': round(time.time() - t, 1)}
            print('  %s %s (%.0fs) %s' % (pid, verdict.upper(), time.time() - t, '; '.join(viol[:5])))
            if verdict.startswith('error'):
                print(rr.stderr[-1200:])
    meta['checks'] = results
    meta['what_i_ran'] = ['git worktree of /repo HEAD + git apply patch.diff', '/verif/tools/baseline.py <scratch> (the BASELINE.json command, 85 stable tests)',
                          'demo.py with PYTHONPATH=<scratch>/src, with and without the patch'] + ['VERIF_REPO=<scratch> ./check %s --tier %s' % (c, a.tier) for c in results]
finally:
    subprocess.call(['git', '-C', '/repo', 'worktree', 'remove', '--force', repo])
    shutil.rmtree(tmp, ignore_errors=True)
if ok:
    os.makedirs(dest, exist_ok=True)
    shutil.copy(a.patch, os.path.join(dest, 'patch.diff'))
    shutil.copy(a.demo, os.path.join(dest, 'demo.py'))
    old = {}
    mp = os.path.join(dest, 'meta.json')
    if os.path.exists(mp):
        old = json.load(open(mp))
        oc = old.get('checks', {})
        oc.update(meta['checks'])
        meta['checks'] = oc
        if not meta['needs_to_manifest']:
            meta['needs_to_manifest'] = old.get('needs_to_manifest', '')
    json.dump(meta, open(mp, 'w'), indent=1)
    print('filed under', dest)
sys.exit(0 if ok else 1)
