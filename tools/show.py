#!/venv/bin/python
import json,sys,glob
for f in sys.argv[1:]:
    for g in sorted(glob.glob(f)):
        d=json.load(open(g))
        print(g.split('/')[-1], '|', d['scenario']['name'], '| init', d['scenario'].get('kw',{}).get('init'))
        print('   ', d['history'])
        print('   ', d['detail'])
