#!/venv/bin/python
"""Run checks against a scratch copy of /repo with a patch applied.
usage: mutant.py [--baseline] [--tier quick] <patch.diff | revert:<commit>> <ID> [<ID> ...]
Prints per check: DETECTED (exit 1 + VIOLATION line) / MISSED (exit 0) / ERROR.  The scratch copy is removed."""
import os, shutil, subprocess, sys, tempfile, time
args = sys.argv[1:]
baseline = '--baseline' in args
if baseline: args.remove('--baseline')
tier = 'quick'
if '--tier' in args:
    i = args.index('--tier'); tier = args[i + 1]; del args[i:i + 2]
patch, ids = args[0], args[1:]
tmp = tempfile.mkdtemp(prefix='verif_mut_')
repo = os.path.join(tmp, 'repo')
try:
    subprocess.check_call(['git', '-C', '/repo', 'worktree', 'add', '--detach', '-q', repo, 'HEAD'])
    shutil.copy('/repo/src/mqtt/_version.py', os.path.join(repo, 'src/mqtt/_version.py'))   # generated, untracked
    if patch.startswith('revert:'):
        c = patch.split(':', 1)[1]
        diff = subprocess.check_output(['git', '-C', '/repo', 'diff', c, c + '^'])
        subprocess.run(['git', '-C', repo, 'apply', '-'], input=diff, check=True)
    else:
        subprocess.check_call(['git', '-C', repo, 'apply', os.path.abspath(patch)])
    if baseline:
        r = subprocess.run(['/verif/tools/baseline.py', repo], stdout=subprocess.PIPE, text=True)
        print('baseline:', r.stdout.strip().splitlines()[0], 'OK' if r.returncode == 0 else 'FAILS')
    out = os.path.join(tmp, 'out')
    for pid in ids:
        env = dict(os.environ, VERIF_REPO=repo, VERIF_OUT=out)
        t = time.time()
        r = subprocess.run(['/verif/check', pid, '--tier', tier], env=env, stdout=subprocess.PIPE, stderr=subprocess.PIPE, text=True)
        viol = [l for l in r.stdout.splitlines() if l.startswith('VIOLATION')]
        verdict = 'DETECTED' if r.returncode == 1 and viol else ('MISSED' if r.returncode == 0 else 'ERROR rc=%d' % r.returncode)
        print('%s %s  (%.0fs) %s' % (pid, verdict, time.time() - t, '; '.join(v.split('replay=')[1].split('/')[-1] for v in viol[:6])))
        if verdict.startswith('ERROR'):
            print(r.stderr[-1500:])
finally:
    subprocess.call(['git', '-C', '/repo', 'worktree', 'remove', '--force', repo])
    shutil.rmtree(tmp, ignore_errors=True)
