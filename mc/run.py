"""Check runner:  python -m mc.run <ID> [--tier quick|thorough] [--replay FILE]

exit 0: property held on everything explored (known findings are printed as KNOWN-FINDING lines)
exit 1: at least one violation not listed in known_findings.json (VIOLATION line per signature)
exit 2: harness error (never a verdict)
"""
import argparse
import fnmatch
import importlib
import json
import os
import re
import sys
import time
import traceback

HERE = os.path.dirname(os.path.dirname(os.path.abspath(__file__)))


class Ctx(object):
    def __init__(self, prop, tier, seed):
        self.prop, self.tier, self.seed = prop, tier, seed
        self.quick = tier == 'quick'
        self.t0 = time.time()
        self.states = 0
        self.transitions = 0
        self.executions = 0
        self.evaluations = 0
        self.distinct = 0
        self.tainted = 0
        self.scenarios = []
        self.samples = []
        self.violations = {}
        self.witness = {}
        self.outcomes = set()
        self.caps = []
        self.notes = []
        self.rule = ''
        self.assumptions = []
        self.exhaustive = True
        self.extra = {}

    def log(self, msg):
        sys.stderr.write(msg + '\n')
        sys.stderr.flush()

    def explore(self, scn, mon_cls, **kw):
        from . import explorer
        only = os.environ.get('VERIF_ONLY')
        if only and only not in scn.name:
            return None
        kw.setdefault('seed', self.seed)
        # quick: a safety net (scenarios finish well inside it).  thorough: a real bound per scenario -- BFS is level-
        # synchronous, so a capped scenario has still covered EVERY history up to its reported max_depth; the cap is reported
        kw.setdefault('max_seconds', int(os.environ.get('VERIF_SCENARIO_CAP_S', '900' if self.quick else '300')))
        kw.setdefault('log', self.log if os.environ.get('VERIF_VERBOSE') else None)
        try:
            r = explorer.explore(scn, mon_cls, **kw)
        except explorer.PrefixBroken as e:
            self.violation({'kind': 'prefix', 'signature': 'scripted-prefix-misbehaves/%s' % scn.name, 'detail': str(e),
                            'history': [list(map(explorer._j, ev)) for ev in scn.init], 'scenario': scn.describe()})
            self.log('[%s] %-28s scripted prefix misbehaves: %s' % (self.prop, scn.name, e))
            return None
        self.states += r.states
        self.transitions += r.transitions
        self.executions += r.executions
        self.tainted += r.tainted
        for k, n in r.witness.items():
            self.witness[k] = self.witness.get(k, 0) + n
        self.outcomes |= r.outcomes
        if r.capped:
            self.caps.append('%s: %s' % (scn.name, r.capped))
            self.exhaustive = False
        self.scenarios.append({'name': scn.name, 'states': r.states, 'transitions': r.transitions,
                               'max_depth': r.max_depth, 'tainted': r.tainted, 'capped': r.capped,
                               'signatures': sorted(r.violations), 'wall_s': round(r.wall, 2),
                               'budgets': getattr(scn, 'budgets', None)})
        for s in r.samples[:2]:
            if len(self.samples) < 6:
                self.samples.append({'scenario': scn.name, 'history': s})
        for sig, rec in r.violations.items():
            self.violation(rec)
        self.log('[%s] %-28s states=%-8d transitions=%-9d depth=%-3d tainted=%-6d sigs=%d %s %.1fs' % (
            self.prop, scn.name, r.states, r.transitions, r.max_depth, r.tainted, len(r.violations),
            ('CAPPED ' + r.capped) if r.capped else '', r.wall))
        return r

    def violation(self, rec):
        sig = rec['signature']
        old = self.violations.get(sig)
        if old is None or len(rec.get('history', ())) < len(old.get('history', ())):
            rec = dict(rec)
            rec['count'] = rec.get('count', 1) + (old or {}).get('count', 0)
            self.violations[sig] = rec
        else:
            old['count'] = old.get('count', 1) + rec.get('count', 1)

    def add_enum(self, evaluations, distinct, samples=()):
        self.evaluations += evaluations
        self.distinct += distinct
        for s in samples:
            if len(self.samples) < 8:
                self.samples.append(s)


def slug(s):
    return re.sub(r'[^A-Za-z0-9_.=-]+', '_', s)[:120]


def load_findings():
    p = os.path.join(HERE, 'known_findings.json')
    if not os.path.exists(p):
        return []
    with open(p) as f:
        return json.load(f)


def main(argv=None):
    ap = argparse.ArgumentParser()
    ap.add_argument('prop')
    ap.add_argument('--tier', default=os.environ.get('VERIF_TIER', 'quick'))
    ap.add_argument('--replay')
    a = ap.parse_args(argv)
    prop = a.prop.upper()
    seed = int(os.environ.get('VERIF_SEED', '0') or 0)
    tier = a.tier if a.tier in ('quick', 'thorough') else 'quick'
    try:
        mod = importlib.import_module('mc.props.%s' % prop.lower())
        if a.replay:
            from . import replay
            return replay.main(mod, prop, a.replay)
        ctx = Ctx(prop, tier, seed)
        mod.run(ctx)
    except Exception:
        traceback.print_exc()
        sys.stderr.write('HARNESS ERROR in check %s\n' % prop)
        return 2
    findings = [f for f in load_findings() if f.get('property') == prop and f.get('status') == 'known']
    unknown, known_hit = [], {}
    for sig, rec in sorted(ctx.violations.items()):
        hit = None
        for f in findings:
            if fnmatch.fnmatchcase(sig, f['signature']):
                hit = f
                break
        if hit is not None:
            known_hit.setdefault(hit['signature'], (hit, []))[1].append(sig)
        else:
            unknown.append((sig, rec))
    for pat, (f, sigs) in sorted(known_hit.items()):
        print('KNOWN-FINDING: property=%s %s' % (prop, f['what']))
    OUT = os.environ.get('VERIF_OUT', HERE)
    rdir = os.path.join(OUT, 'replays', prop)
    if os.path.isdir(rdir):
        for f in os.listdir(rdir):
            if f.endswith('.json'):
                os.unlink(os.path.join(rdir, f))      # replays of earlier runs of this check
    for sig, rec in unknown:
        os.makedirs(rdir, exist_ok=True)
        path = os.path.join(rdir, slug(sig) + '.json')
        out = dict(rec)
        out['property'] = prop
        with open(path, 'w') as f:
            json.dump(out, f, indent=1, default=repr)
        print('VIOLATION property=%s replay=%s' % (prop, path))
        sys.stderr.write('  %s: %s\n' % (sig, rec.get('detail', '')))
    wall = time.time() - ctx.t0
    cov = {
        'states': ctx.states, 'transitions': ctx.transitions,
        'traces_validated_against_impl': ctx.executions,
        'samples': ctx.samples or ['(no sample recorded)'],
        'exhaustive': bool(ctx.exhaustive and not ctx.caps),
        'caps_hit': ctx.caps,
        'scenarios': ctx.scenarios,
        'tainted_states_not_expanded': ctx.tainted,
        'witness_counters': ctx.witness,
        'distinct_outcomes': len(ctx.outcomes),
        'known_findings_hit': sorted(known_hit),
        'violation_signatures': sorted(s for s, _ in unknown),
        'rule': ctx.rule,
        'explanation': 'every transition is one execution of the real implementation on a fresh world by '
                       'history replay; there is no separate model, so traces_validated_against_impl equals '
                       'the number of executed histories',
    }
    if ctx.evaluations:
        cov['evaluations'] = ctx.evaluations
        cov['distinct_nontrivial'] = ctx.distinct
    if not ctx.states:
        cov.pop('states'), cov.pop('transitions'), cov.pop('traces_validated_against_impl')
    cov.update(ctx.extra)
    ev = {'property_id': prop, 'tier': tier, 'seed': seed, 'level': 'model_checking', 'coverage': cov,
          'assumptions': ctx.assumptions, 'wall_s': round(wall, 2), 'violations': len(unknown),
          'notes': ctx.notes}
    os.makedirs(os.path.join(OUT, 'evidence'), exist_ok=True)
    with open(os.path.join(OUT, 'evidence', prop + '.json'), 'w') as f:
        json.dump(ev, f, indent=1, default=repr)
    sys.stderr.write('[%s] tier=%s seed=%d states=%d transitions=%d evaluations=%d unknown=%d known=%d %.1fs\n' % (
        prop, tier, seed, ctx.states, ctx.transitions, ctx.evaluations, len(unknown), len(known_hit), wall))
    return 1 if unknown else 0


if __name__ == '__main__':
    sys.exit(main())
