"""Configurable scenario over the union alphabet (DESIGN 1.3) with per-class budgets and the closing phase."""
from . import refcodec as rc
from .explorer import Scenario


class Std(Scenario):
    """Parameters (all optional):
      profile, mode, naddr
      init            : tuple of events applied before exploration starts
      connects        : menu of (clean, ka, ver) for the first connect of an address
      reconnects      : menu for connects on rebuilt protocols
      budgets         : {class: max count}; classes: pub sub unsub ack dack stray tick setwin lose rebuild connect
                        connack badconnack disconnect inpub inrel jit wait pingresp settimeout reconn2 (connect again)
      pub_qos, pub_variants, sub_shapes, unsub_shapes, windows, lose_kinds, suback_codes, inpubs, inrels
      pub_in_connecting, api_after_close, early_pubcomp, ack_heldback, tick_ties
    """

    def __init__(self, name, **kw):
        self.name = name
        self.kw = kw
        g = kw.get
        self.cfg = dict(profile=g('profile', 'pubsub'), mode=g('mode', 'sync'), naddr=g('naddr', 1))
        for k in ('id0', 'split', 'ondisc', 'onpub', 'onmade', 'reenter', 'reenter_max', 'cb_deferred'):
            if k in kw:
                self.cfg[k] = kw[k]
        self.init = tuple(g('init', ()))
        self.connects = g('connects', [(True, 0, 4)])
        self.reconnects = g('reconnects', self.connects)
        self.budgets = dict(g('budgets', {}))
        self.pub_qos = g('pub_qos', (0, 1, 2))
        self.pub_retain = g('pub_retain', (False,))
        self.pub_kinds = g('pub_kinds', ())
        self.bandwidths = g('bandwidths', ())
        self.sub_shapes = g('sub_shapes', ('str',))
        self.unsub_shapes = g('unsub_shapes', ('str',))
        self.windows = g('windows', ())
        self.lose_kinds = g('lose_kinds', ('done',))
        self.lose_new = g('lose_new', False)     # the transport may be lost before connect() was ever called on the protocol
        self.suback_codes = g('suback_codes', ((1,),))
        self.inpubs = g('inpubs', ())
        self.inrels = g('inrels', ())
        self.pub_in_connecting = g('pub_in_connecting', True)
        self.api_after_close = g('api_after_close', False)
        self.early_pubcomp = g('early_pubcomp', True)
        self.ack_heldback = g('ack_heldback', True)
        self.tick_ties = g('tick_ties', True)
        self.rx_after_close = g('rx_after_close', False)
        self.closing_enabled = g('closing', True)
        self.closing_reconnect = g('closing_reconnect', True)
        self.drain_horizon = g('drain_horizon', 5000.0)
        self.drain_max_ticks = g('drain_max_ticks', 60)
        self.jits = g('jits', (0.75,))
        self.waits = g('waits', ())
        self.timeouts = g('timeouts', ())
        self.badconnacks = g('badconnacks', (5,))
        self.addrs = list(range(self.cfg['naddr']))
        self.addr_budgets = g('addr_budgets', None)    # optional per-address budgets (C19)

    def describe(self):
        d = {'name': self.name, 'class': 'Std', 'kw': _plain(self.kw)}
        return d

    # ------------------------------------------------------------------ budgets

    def klass(self, ev):
        k = ev[0]
        if k == 'ack' and ev[3][0] == 'stray':
            return 'stray'
        if k == 'suback':
            return 'stray' if ev[2][0] == 'stray' else ('dack' if ev[2][0] == 'd' else 'ack')
        if k == 'connack' and ev[2] != 0:
            return 'badconnack'
        return k

    def used(self, w, addr=None):
        u = {}
        for ev in w.hist[len(self.init):]:
            if addr is not None and len(ev) > 1 and ev[1] != addr and ev[0] not in ('tick', 'wait', 'jit'):
                continue
            k = self.klass(ev)
            u[k] = u.get(k, 0) + 1
        return u

    def budget_key(self, w):
        if self.addr_budgets is not None:
            return tuple(tuple(sorted(self.used(w, a).items())) for a in self.addrs) + \
                (tuple(sorted(self.used(w).items())),)
        return tuple(sorted(self.used(w).items()))

    # ------------------------------------------------------------------ enabled events

    def enabled(self, w):
        u = self.used(w)
        B = self.budgets

        def left(k):
            return B.get(k, 0) - u.get(k, 0)
        out = []
        for a in self.addrs:
            if self.addr_budgets is not None:
                ua = self.used(w, a)
                Ba = self.addr_budgets[a]

                def left(k, ua=ua, Ba=Ba):      # noqa
                    return Ba.get(k, 0) - ua.get(k, 0)
            c = w.conn(a)
            if c is None:
                continue
            ph = w.phase(c)
            if c.lost:
                if left('rebuild') > 0:
                    out.append(('rebuild', a))
                if left('reconn2') > 0:        # connect() again on the protocol whose connection was lost (D17)
                    out.append(('reconn2', a) + tuple(self.reconnects[0]))
                continue
            if c.pending_loss is not None:
                out.append(('lossdeliver', a))
            if left('lose') > 0 and (c.phase != 'new' or self.lose_new):
                for k in self.lose_kinds:
                    out.append(('lose', a, k))
            first = not any(x.addr == a and x.n_connects for x in w.conns)
            can_api = c.close_req is None or self.api_after_close
            if ph == 'new' and can_api:
                if not first and left('setwin') > 0:    # the application configures the rebuilt protocol before connecting
                    for n in self.windows:
                        if n != c.window:
                            out.append(('setwin', a, n))
                if left('badconnect') > 0:
                    out.append(('badconnect', a, first))
                if left('connect') > 0:
                    for m in (self.connects if first else self.reconnects):
                        out.append(('connect', a) + tuple(m))
            elif ph == 'refused' and can_api:
                if left('reconn2') > 0:
                    out.append(('reconn2', a) + tuple(self.reconnects[0]))
            elif ph == 'connecting':
                if c.open:
                    if left('connack') > 0:
                        out.append(('connack', a, 0, False))
                    if left('badconnack') > 0:
                        for rcode in self.badconnacks:
                            out.append(('connack', a, rcode, False))
                if self.pub_in_connecting and can_api and left('pub') > 0 and w.profile != 'sub':
                    for q in self.pub_qos:
                        out.append(('pub', a, q))
            elif ph == 'connected':
                if can_api:
                    if w.profile != 'sub' and left('pub') > 0:
                        for q in self.pub_qos:
                            for rt in self.pub_retain:
                                out.append(('pub', a, q) if not rt else ('pub', a, q, True))
                            for pk in self.pub_kinds:
                                out.append(('pub', a, q, False, pk))
                    if left('setbw') > 0:
                        for (b, f) in self.bandwidths:
                            out.append(('setbw', a, b, f))
                    if left('appping') > 0:
                        out.append(('appping', a))
                    if w.profile != 'pub':
                        if left('sub') > 0:
                            for s in self.sub_shapes:
                                out.append(('sub', a, s))
                        if left('unsub') > 0:
                            for s in self.unsub_shapes:
                                out.append(('unsub', a, s))
                    if left('setwin') > 0:
                        for n in self.windows:
                            if n != c.window:
                                out.append(('setwin', a, n))
                    if left('settimeout') > 0:
                        for t in self.timeouts:
                            if t != c.timeout:
                                out.append(('settimeout', a, t))
                    if left('disconnect') > 0 and c.close_req is None:
                        out.append(('disconnect', a))
                if c.open or (self.rx_after_close and c.close_req == 'lose' and not c.lost and w.mode == 'async'):
                    if left('dupconnack') > 0:
                        out.append(('dupconnack', a, 0, True))
                    out.extend(self._acks(w, a, c, left))
                    if left('inpub') > 0:
                        for x in self.inpubs:
                            out.append(('inpub', a) + tuple(x))
                    if left('inrel') > 0:
                        for x in self.inrels:
                            out.append(('inrel', a) + tuple(x))
                    if left('pingresp') > 0:
                        out.append(('pingresp', a))
        def left(k):        # noqa -- events that belong to no address use the scenario-wide budgets
            return B.get(k, 0) - u.get(k, 0)
        if left('setid') > 0:
            live = sorted(set(r.msgId for r in w.reqs if r.pending and r.msgId and r.kind in ('pub', 'sub', 'unsub')))
            if live:
                out.append(('setid', 0, (live[0] - 1) % 65536))      # the counter comes round to the oldest live identifier
                if live[0] == 1:
                    out.append(('setid', 0, 65535))                  # ... through the 65535 -> (0) -> 1 wrap itself
                out.append(('setid', 0, 65533))                      # ... or approaches the wrap from below
        if left('tick') > 0:
            n = len(w.ties())
            if n:
                for j in range(n if self.tick_ties else 1):
                    out.append(('tick', j))
        if left('jit') > 0:
            for v in self.jits:
                if v != w.jitter:
                    out.append(('jit', v))
        if left('wait') > 0:
            nd = w.next_deadline()
            for dt in self.waits:
                if nd is None or w.clock.rightNow + dt < nd - 1e-6:
                    out.append(('wait', dt))
        return out

    def _acks(self, w, a, c, left):
        out = []
        stray_types = set()
        for r in w.reqs:
            if r.addr != a or r.msgId is None or r.kind not in ('pub', 'sub', 'unsub'):
                continue
            live = r.pending
            transmitted = bool(r.tx)
            if live and not transmitted and not self.ack_heldback:
                continue
            kind = 'ack' if live else 'dack'
            tgt = ('r', r.idx)
            if r.kind == 'pub' and r.qos == 2 and live and r.acked('PUBREC') and left('dack') > 0:
                out.append(('dack', a, 'PUBREC', tgt))        # the broker repeats a PUBREC already received
            if left(kind) <= 0:
                continue
            if r.kind == 'pub':
                if r.qos == 1:
                    out.append((kind, a, 'PUBACK', tgt))
                elif r.qos == 2:
                    if live:
                        recd = r.acked('PUBREC')
                        if not recd:
                            out.append(('ack', a, 'PUBREC', tgt))
                        if recd or self.early_pubcomp:
                            out.append((kind, a, 'PUBCOMP', tgt))
                    else:
                        out.append((kind, a, 'PUBREC', tgt))
                        out.append((kind, a, 'PUBCOMP', tgt))
            elif r.kind == 'sub':
                for codes in (self.suback_codes if live else self.suback_codes[:1]):
                    out.append(('suback', a, (('r' if live else 'd'), r.idx), tuple(codes)))
            elif r.kind == 'unsub':
                out.append((kind, a, 'UNSUBACK', tgt))
        if left('misack') > 0:
            for r in w.reqs:
                if r.addr == a and r.kind == 'pub' and r.pending and r.tx and r.msgId:
                    if r.qos == 1:
                        out.append(('misack', a, 'PUBREC', ('r', r.idx)))
                    elif r.qos == 2 and not r.acked('PUBREC'):
                        out.append(('misack', a, 'PUBACK', ('r', r.idx)))
        if left('stray') > 0:
            types = []
            if w.profile != 'sub':
                types += ['PUBACK', 'PUBREC', 'PUBCOMP']
            if w.profile != 'pub':
                types += ['UNSUBACK']
            for t in types:
                out.append(('ack', a, t, ('stray', 0)))
            if w.profile != 'pub':
                out.append(('suback', a, ('stray', 0), (0,)))
        return out

    # ------------------------------------------------------------------ closing phase

    def unanswered(self, w, c):
        """Events a well-behaved broker still owes on connection c (judged from the wire alone)."""
        owed = {}      # (type, id) -> event ; dict keeps first-seen order
        for o in w.obs:
            if o[0] == 'w' and o[1] == c.idx:
                for p in o[5]:
                    t = p['type']
                    a = c.addr
                    if t == 'PUBLISH' and p['qos'] == 1:
                        owed[('PUBACK', p['msgId'])] = ('ack', a, 'PUBACK', ('id', p['msgId']))
                    elif t == 'PUBLISH' and p['qos'] == 2:
                        owed[('PUBREC', p['msgId'])] = ('ack', a, 'PUBREC', ('id', p['msgId']))
                    elif t == 'PUBREL':
                        owed[('PUBCOMP', p['msgId'])] = ('ack', a, 'PUBCOMP', ('id', p['msgId']))
                    elif t == 'SUBSCRIBE':
                        owed[('SUBACK', p['msgId'])] = ('suback', a, ('id', p['msgId']),
                                                        tuple(q for (_, q) in p['topics']))
                    elif t == 'UNSUBSCRIBE':
                        owed[('UNSUBACK', p['msgId'])] = ('ack', a, 'UNSUBACK', ('id', p['msgId']))
                    elif t == 'PINGREQ':
                        owed[('PINGRESP', None)] = ('pingresp', a)
            elif o[0] == 'rx' and o[1] == c.idx:
                try:
                    pk, _ = rc.split_stream(o[2])
                    for raw in pk:
                        d = rc.decode(raw, strict=False)
                        owed.pop((d['type'], d.get('msgId')), None)
                except rc.RefError:
                    pass
        return list(owed.values())

    def closing(self, w, cb):
        def do(ev):
            w.apply(ev)
            cb(ev)

        def settle():
            for _ in range(40):
                progressed = False
                for a in self.addrs:
                    c = w.conn(a)
                    if c is None:
                        continue
                    if c.pending_loss is not None and not c.lost:
                        do(('lossdeliver', a))
                        progressed = True
                    if c.lost:
                        if self.closing_reconnect and any(r.addr == a and r.pending and r.kind != 'connect'
                                                          for r in w.reqs):
                            do(('rebuild', a))
                            progressed = True
                            c = w.conn(a)
                        else:
                            continue
                    ph = w.phase(c)
                    if ph == 'new' and c.close_req is None:
                        prev = [x for x in w.conns if x.addr == a and x.idx < c.idx and x.n_connects]
                        if prev and self.closing_reconnect and any(r.addr == a and r.pending and r.kind != 'connect'
                                                                   for r in w.reqs):
                            p = prev[-1]
                            do(('connect', a, p.clean, 0, p.level))
                            progressed = True
                            ph = w.phase(c)
                    if ph == 'refused' and c.open:
                        do(('lose', a, 'done'))         # a broker closes the connection it has refused
                        progressed = True
                        continue
                    if ph == 'connecting' and c.open:
                        do(('connack', a, 0, False))
                        progressed = True
                        ph = w.phase(c)
                    if ph == 'connected' and c.open:
                        owed = self.unanswered(w, c)
                        if owed:
                            do(owed[0])
                            progressed = True
                if not progressed:
                    return
        settle()
        t_end = w.clock.rightNow + self.drain_horizon
        n = 0
        while n < self.drain_max_ticks:
            nd = w.next_deadline()
            if nd is None or nd > t_end:
                break
            do(('tick', 0))
            n += 1
            settle()
        w.drain_ticks = n
        w.drain_complete = (w.next_deadline() is None or w.next_deadline() > t_end)


def _plain(x):
    if isinstance(x, dict):
        return {k: _plain(v) for k, v in x.items()}
    if isinstance(x, (list, tuple)):
        return [_plain(v) for v in x]
    if isinstance(x, bytes):
        return {'hex': x.hex()}
    return x


def unplain(x):
    if isinstance(x, dict):
        if set(x) == {'hex'}:
            return bytes.fromhex(x['hex'])
        return {k: unplain(v) for k, v in x.items()}
    if isinstance(x, list):
        return tuple(unplain(v) for v in x)
    return x
