"""Explicit-state breadth-first exploration of the real implementation by history replay (DESIGN 1.4).

A *scenario* supplies: cfg (World config), init (prefix events, not explored), enabled(world) -> events,
closing(world) (deterministic completion) or None, and a name.  A *monitor class* is instantiated per world:
monitor.step(world) after every event -> list of violations, monitor.key(), monitor.at_end(world).
Every transition is an execution of the real code on a fresh World.
"""
import hashlib
import multiprocessing as mp
import os
import random
import time

from .world import World, canon_world, reqkey


class HarnessError(Exception):
    pass


class PrefixBroken(Exception):
    """A scripted prefix (scenario init / base history: whole packets, acknowledgements in order) could not be executed
    as scripted on this tree, e.g. a request that the script acknowledges was refused.  On the unchanged tree every
    prefix runs (checked on every run), so this is a verdict about the tree, not a harness error."""
    pass


def V(kind, sig, detail=''):
    """A violation record (property id is added by the check)."""
    return {'kind': kind, 'signature': sig, 'detail': detail}


def digest(obj):
    return hashlib.blake2b(repr(obj).encode('utf-8', 'backslashreplace'), digest_size=16).digest()


def obs_plain(obs):
    """Observation log without the parsed-packet dicts (stable, comparable)."""
    out = []
    for o in obs:
        if o[0] == 'w':
            out.append(o[:5] + (o[6],))
        else:
            out.append(o)
    return out


class Scenario(object):
    name = 'scenario'
    cfg = {}
    init = ()
    closing_enabled = True

    def enabled(self, w):
        raise NotImplementedError

    def closing(self, w, step_cb):
        """Default closing phase: deliver pending losses, answer everything, drain the clock."""
        return None

    def describe(self):
        return {'name': self.name, 'cfg': self.cfg, 'init': [list(e) for e in self.init]}


def build(scn, mon_cls, hist, check_obs=None):
    w = World(dict(scn.cfg))
    m = mon_cls(w, scn)
    viols = []
    for ev in scn.init:
        try:
            w.apply(ev)
        except Exception as e:      # noqa
            raise PrefixBroken('%s: scripted event %r failed with %s: %s' % (scn.name, ev, type(e).__name__, e))
        m.step(w)
    n = len(hist)
    lazy = getattr(mon_cls, 'stateless', False)
    m.hist, m.n = hist, n
    for i, ev in enumerate(hist):
        m.i = i
        if i == n - 1:
            m.before_last(w, ev)
        w.apply(ev)
        if lazy and i < n - 1:
            continue        # a stateless monitor reads only world tables + the last step's observations
        v = m.step(w)
        if v:
            for x in v:
                x = dict(x)
                x['step'] = i
                viols.append(x)
    return w, m, viols


def state_key(scn, w, m):
    extra = scn.budget_key(w) if hasattr(scn, 'budget_key') else tuple(sorted(w.counts.items()))
    return digest((canon_world(w), reqkey(w), m.key(w), extra))


_CTX = {}


def _expand(item):
    scn, mon_cls, do_closing = _CTX['scn'], _CTX['mon'], _CTX['closing']
    hist, want_obs = item
    w, m, viols = build(scn, mon_cls, hist)
    if viols:
        raise HarnessError('replay of an expanded node produced violations: %r %r' % (hist, viols))
    if want_obs is not None and digest(obs_plain(w.obs)) != want_obs:
        raise HarnessError('prefix replay diverged from recorded observations: %r' % (hist,))
    events = scn.enabled(w)
    out = []
    for ev in events:
        h2 = hist + (ev,)
        w2, m2, v2 = build(scn, mon_cls, h2)
        if any(x['step'] < len(hist) for x in v2):
            raise HarnessError('nondeterministic replay (violation in prefix): %r' % (h2,))
        key = state_key(scn, w2, m2)
        odig = digest(obs_plain(w2.obs))
        en2 = digest(scn.enabled(w2)) if not v2 else b''
        outcome = m2.outcome(w2) if hasattr(m2, 'outcome') else None
        wit = m2.witnesses() if hasattr(m2, 'witnesses') else None
        cv = []
        closing_hist = None
        if not v2 and do_closing and scn.closing_enabled:
            closing_hist = []

            def cb(e):
                closing_hist.append(e)
                vv = m2.step(w2)
                for x in (vv or ()):
                    x = dict(x)
                    x['step'] = len(h2) + len(closing_hist) - 1
                    x['in_closing'] = True
                    cv.append(x)
            scn.closing(w2, cb)
            for x in (m2.at_end(w2) or ()):
                x = dict(x)
                x['step'] = len(h2) + len(closing_hist)
                x['in_closing'] = True
                cv.append(x)
            if cv:
                wit = m2.witnesses() if hasattr(m2, 'witnesses') else wit
        out.append((ev, key, odig, en2, v2, cv, closing_hist if cv else None, outcome, wit))
    return hist, out


def _expand_chunk(items):
    return [_expand(it) for it in items]


class Result(object):
    def __init__(self):
        self.states = 0
        self.transitions = 0
        self.executions = 0
        self.tainted = 0
        self.max_depth = 0
        self.capped = None
        self.violations = {}       # signature -> record (shortest witness first found)
        self.nviol = 0
        self.outcomes = set()
        self.witness = {}
        self.samples = []
        self.levels = []
        self.wall = 0.0


def explore(scn, mon_cls, workers=None, max_states=None, max_seconds=None, closing=True, seed=0, log=None,
            max_depth=None):
    workers = workers or min(16, os.cpu_count() or 1)
    res = Result()
    t0 = time.time()
    _CTX.update(scn=scn, mon=mon_cls, closing=closing)
    rnd = random.Random(seed)
    w0, m0, v0 = build(scn, mon_cls, ())
    if v0:
        raise HarnessError('violation in scenario init: %r' % v0)
    k0 = state_key(scn, w0, m0)
    # harness proof obligation (a): same history twice -> identical observations and key
    w0b, m0b, _ = build(scn, mon_cls, ())
    if state_key(scn, w0b, m0b) != k0 or obs_plain(w0.obs) != obs_plain(w0b.obs):
        raise HarnessError('replay is not deterministic (init)')
    seen = {k0: digest(scn.enabled(w0))}
    frontier = [((), digest(obs_plain(w0.obs)))]
    res.states = 1
    interned = {}
    pool = mp.get_context('fork').Pool(workers) if workers > 1 else None
    depth = 0
    try:
        while frontier:
            if max_depth is not None and depth >= max_depth:
                res.capped = 'depth %d' % max_depth
                break
            depth += 1
            if depth > 120:
                raise HarnessError('search deeper than 120 events: some enabled event is not budgeted (%s)' % scn.name)
            if seed:
                rnd.shuffle(frontier)
            nxt = []
            csz = max(1, min(64, len(frontier) // (workers * 4) or 1))
            chunks = [frontier[i:i + csz] for i in range(0, len(frontier), csz)]
            it = pool.imap(_expand_chunk, chunks) if pool else map(_expand_chunk, chunks)
            lvl_trans = 0
            stop = False
            for chunk_res in it:
                for hist, children in chunk_res:
                    for (ev, key, odig, en2, v2, cv, chist, outcome, wit) in children:
                        ev = interned.setdefault(ev, ev)
                        res.transitions += 1
                        lvl_trans += 1
                        res.executions += 1
                        h2 = hist + (ev,)
                        if outcome is not None:
                            res.outcomes.add(outcome)
                        if wit:
                            for k, n in wit.items():
                                res.witness[k] = res.witness.get(k, 0) + n
                        for x in v2:
                            _record(res, scn, x, h2)
                        for x in cv:
                            _record(res, scn, x, h2 + tuple(chist))
                        if v2:
                            res.tainted += 1
                            continue
                        if key in seen:
                            if seen[key] != en2:
                                raise HarnessError('state abstraction too coarse: equal keys, different enabled '
                                                   'events at %r' % (h2,))
                            continue
                        seen[key] = en2
                        res.states += 1
                        nxt.append((h2, odig))
                        if len(res.samples) < 4 and len(h2) >= 4 and (res.states % 97 == 3):
                            res.samples.append([list(map(_j, e)) for e in h2])
                if max_states and res.states >= max_states:
                    res.capped = 'states %d' % max_states
                    stop = True
                if max_seconds and time.time() - t0 > max_seconds:
                    res.capped = 'time %ds' % max_seconds
                    stop = True
                if stop:
                    break
            res.levels.append((depth, len(frontier), lvl_trans, len(nxt)))
            if log:
                log('  [%s] depth %d: frontier %d -> %d new states, %d transitions, %d signatures, %.1fs' % (
                    scn.name, depth, len(frontier), len(nxt), lvl_trans, len(res.violations), time.time() - t0))
            if stop:
                if pool:
                    pool.terminate()
                    pool = None
                break
            res.max_depth = depth
            frontier = nxt
    finally:
        if pool:
            pool.close()
            pool.join()
    if not res.samples and res.states > 1:
        res.samples.append('see levels')
    res.wall = time.time() - t0
    return res


def _j(x):
    if isinstance(x, bytes):
        return {'hex': x.hex()}
    if isinstance(x, tuple):
        return [_j(y) for y in x]
    return x


def _record(res, scn, x, hist):
    res.nviol += 1
    sig = x['signature']
    old = res.violations.get(sig)
    if old is None or len(hist) < len(old['history']):
        rec = dict(x)
        rec['history'] = [list(map(_j, e)) for e in hist]
        rec['scenario'] = scn.describe()
        rec['count'] = (old or {}).get('count', 0) + 1
        res.violations[sig] = rec
    else:
        old['count'] += 1
