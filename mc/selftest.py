"""Harness self-test (MANIFEST.setup_cmd): reference codec against the specification's byte examples, replay
determinism, a tiny exploration.  Exit 0 on success."""
import sys
import compileall
import os


def main():
    here = os.path.dirname(os.path.abspath(__file__))
    from . import refcodec
    refcodec.selftest()
    from . import world, explorer
    from .scen import Std
    from .monitor import Monitor
    hist = [('connect', 0, False, 2, 3), ('pub', 0, 1), ('connack', 0, 0, True), ('pub', 0, 2), ('tick', 0),
            ('ack', 0, 'PUBREC', ('r', 2)), ('lose', 0, 'lost'), ('tick', 0), ('rebuild', 0),
            ('connect', 0, False, 0, 4), ('connack', 0, 0, True)]
    keys = []
    for _ in range(2):
        w = world.World(dict(profile='pubsub', mode='async'))
        for ev in hist:
            w.apply(ev)
        keys.append((explorer.digest(world.canon_world(w)), explorer.obs_plain(w.obs)))
    assert keys[0] == keys[1], 'replay not deterministic'
    scn = Std('selftest', profile='pubsub', init=(('connect', 0, True, 0, 4), ('connack', 0, 0, False)),
              budgets=dict(pub=2, ack=2, tick=1))
    r = explorer.explore(scn, Monitor, workers=2)
    assert r.states > 50 and r.transitions > r.states and not r.violations, (r.states, r.transitions)
    print('selftest ok: refcodec, determinism, tiny exploration (%d states, %d transitions)' % (r.states, r.transitions))
    return 0


if __name__ == '__main__':
    sys.exit(main())
