"""Independent reference MQTT 3.1 / 3.1.1 codec.

Written from the OASIS MQTT 3.1.1 text (sections 2 and 3) and the IBM MQTT V3.1 text -- NOT from
/repo/src/mqtt/pdu.py.  It is the judge for C02/C18 and the packet parser for every monitor.

Packets are plain dicts: {'type': 'PUBLISH', 'flags': int, ...fields...}.
"""

CONNECT, CONNACK, PUBLISH, PUBACK, PUBREC, PUBREL, PUBCOMP, SUBSCRIBE, SUBACK, UNSUBSCRIBE, UNSUBACK, \
    PINGREQ, PINGRESP, DISCONNECT = range(1, 15)

NAMES = {1: 'CONNECT', 2: 'CONNACK', 3: 'PUBLISH', 4: 'PUBACK', 5: 'PUBREC', 6: 'PUBREL', 7: 'PUBCOMP',
         8: 'SUBSCRIBE', 9: 'SUBACK', 10: 'UNSUBSCRIBE', 11: 'UNSUBACK', 12: 'PINGREQ', 13: 'PINGRESP',
         14: 'DISCONNECT'}
CODES = {v: k for k, v in NAMES.items()}

CLIENT_TO_BROKER = {'CONNECT', 'PUBLISH', 'PUBACK', 'PUBREC', 'PUBREL', 'PUBCOMP', 'SUBSCRIBE', 'UNSUBSCRIBE',
                    'PINGREQ', 'DISCONNECT'}
BROKER_TO_CLIENT = {'CONNACK', 'PUBLISH', 'PUBACK', 'PUBREC', 'PUBREL', 'PUBCOMP', 'SUBACK', 'UNSUBACK', 'PINGRESP'}

# MQTT 3.1.1 table 2.2: mandatory flag nibble per packet type (PUBLISH is free: dup/qos/retain)
FIXED_FLAGS = {CONNECT: 0, CONNACK: 0, PUBACK: 0, PUBREC: 0, PUBREL: 2, PUBCOMP: 0, SUBSCRIBE: 2, SUBACK: 0,
               UNSUBSCRIBE: 2, UNSUBACK: 0, PINGREQ: 0, PINGRESP: 0, DISCONNECT: 0}
# MQTT 3.1: PUBREL / SUBSCRIBE / UNSUBSCRIBE are QoS 1 packets that may carry DUP on re-delivery
V31_DUP_OK = {PUBREL, SUBSCRIBE, UNSUBSCRIBE}

PROTO = {3: 'MQIsdp', 4: 'MQTT'}


class RefError(ValueError):
    pass


# ----------------------------------------------------------------------------------------- primitives

def enc_u16(v):
    if not isinstance(v, int) or isinstance(v, bool) or not (0 <= v <= 0xFFFF):
        raise RefError('u16 out of range: %r' % (v,))
    return bytes([v >> 8, v & 0xFF])


def dec_u16(b, off=0):
    if len(b) < off + 2:
        raise RefError('short u16')
    return (b[off] << 8) | b[off + 1]


def enc_len(n):
    """Remaining length, MQTT 3.1.1 section 2.2.3."""
    if not (0 <= n <= 268435455):
        raise RefError('remaining length out of range: %r' % (n,))
    out = bytearray()
    while True:
        d = n % 128
        n //= 128
        if n > 0:
            d |= 0x80
        out.append(d)
        if n == 0:
            return bytes(out)


def dec_len(b, off=0):
    """Return (value, number of length bytes). Raises RefError if incomplete or > 4 bytes."""
    mult, val, i = 1, 0, 0
    while True:
        if off + i >= len(b):
            raise RefError('incomplete remaining length')
        d = b[off + i]
        val += (d & 0x7F) * mult
        i += 1
        if not d & 0x80:
            return val, i
        if i == 4:
            raise RefError('remaining length longer than 4 bytes')
        mult *= 128


def enc_str(s):
    if not isinstance(s, str):
        raise RefError('not a str: %r' % (type(s),))
    try:
        raw = s.encode('utf-8')          # refuses lone surrogates
    except UnicodeEncodeError as e:
        raise RefError('not encodable: %s' % e)
    if len(raw) > 0xFFFF:
        raise RefError('string longer than 65535 bytes')
    return enc_u16(len(raw)) + raw


def enc_bin(raw):
    raw = bytes(raw)
    if len(raw) > 0xFFFF:
        raise RefError('binary longer than 65535 bytes')
    return enc_u16(len(raw)) + raw


def dec_str(b, off):
    """Return (str, new offset); strict: announced length must fit, bytes must be well-formed UTF-8."""
    n = dec_u16(b, off)
    if off + 2 + n > len(b):
        raise RefError('string overruns packet')
    try:
        s = bytes(b[off + 2:off + 2 + n]).decode('utf-8')
    except UnicodeDecodeError as e:
        raise RefError('invalid utf-8: %s' % e)
    return s, off + 2 + n


def dec_bin(b, off):
    n = dec_u16(b, off)
    if off + 2 + n > len(b):
        raise RefError('binary overruns packet')
    return bytes(b[off + 2:off + 2 + n]), off + 2 + n


def _pkt(ptype, flags, body):
    return bytes([(ptype << 4) | flags]) + enc_len(len(body)) + bytes(body)


def as_bytes(payload):
    """The wire bytes of an application payload / password given as str or bytes-like."""
    if isinstance(payload, str):
        return payload.encode('utf-8')
    if isinstance(payload, (bytes, bytearray)):
        return bytes(payload)
    raise RefError('unsupported payload type %r' % (type(payload),))


# ----------------------------------------------------------------------------------------- encoders

def enc_connect(clientId, keepalive=0, clean=True, level=4, willTopic=None, willMessage=None, willQoS=0,
                willRetain=False, username=None, password=None):
    if level not in PROTO:
        raise RefError('unknown protocol level')
    flags = 0
    if clean:
        flags |= 0x02
    has_will = willTopic is not None and willMessage is not None
    if has_will:
        if not (0 <= willQoS <= 2):
            raise RefError('will qos')
        flags |= 0x04 | (willQoS << 3) | (0x20 if willRetain else 0)
    if username is not None:
        flags |= 0x80
    if password is not None:
        flags |= 0x40
    body = enc_str(PROTO[level]) + bytes([level, flags]) + enc_u16(keepalive) + enc_str(clientId)
    if has_will:
        body += enc_str(willTopic) + enc_bin(as_bytes(willMessage))
    if username is not None:
        body += enc_str(username)
    if password is not None:
        body += enc_bin(as_bytes(password))
    return _pkt(CONNECT, 0, body)


def enc_connack(sp, rc):
    return _pkt(CONNACK, 0, bytes([1 if sp else 0, rc]))


def enc_publish(topic, payload, qos=0, dup=False, retain=False, msgId=None):
    if qos not in (0, 1, 2):
        raise RefError('qos')
    flags = (0x08 if dup else 0) | (qos << 1) | (1 if retain else 0)
    body = enc_str(topic)
    if qos:
        body += enc_u16(msgId)
    body += as_bytes(payload)
    return _pkt(PUBLISH, flags, body)


def enc_ack(name, msgId, dup=False):
    """PUBACK / PUBREC / PUBREL / PUBCOMP / UNSUBACK"""
    t = CODES[name]
    flags = FIXED_FLAGS[t] | (0x08 if dup else 0)
    return _pkt(t, flags, enc_u16(msgId))


def enc_subscribe(msgId, topics, dup=False):
    body = enc_u16(msgId)
    for (t, q) in topics:
        if q not in (0, 1, 2):
            raise RefError('qos')
        body += enc_str(t) + bytes([q])
    return _pkt(SUBSCRIBE, 2 | (0x08 if dup else 0), body)


def enc_suback(msgId, codes):
    return _pkt(SUBACK, 0, enc_u16(msgId) + bytes(codes))


def enc_unsubscribe(msgId, topics, dup=False):
    body = enc_u16(msgId)
    for t in topics:
        body += enc_str(t)
    return _pkt(UNSUBSCRIBE, 2 | (0x08 if dup else 0), body)


def enc_pingreq():
    return _pkt(PINGREQ, 0, b'')


def enc_pingresp():
    return _pkt(PINGRESP, 0, b'')


def enc_disconnect():
    return _pkt(DISCONNECT, 0, b'')


# ----------------------------------------------------------------------------------------- framing

def split_stream(data):
    """Split a byte string into complete packets.  Returns (list of packet bytes, remainder)."""
    out, off, n = [], 0, len(data)
    data = bytes(data)
    while off < n:
        if n - off < 2:
            break
        try:
            rl, ll = dec_len(data, off + 1)
        except RefError as e:
            if 'incomplete' in str(e):
                break
            raise
        end = off + 1 + ll + rl
        if end > n:
            break
        out.append(data[off:end])
        off = end
    return out, data[off:]


# ----------------------------------------------------------------------------------------- decoder

def decode(pkt, level=4, strict=True):
    """Decode ONE complete packet.

    strict=True : every rule of the specification for that packet (flag nibble, exact body length, UTF-8,
                  return codes, CONNECT flag/payload consistency).
    strict=False: 'structural' notion -- type nibble valid, remaining length equals what follows, mandatory
                  fields present, every announced string length fits, valid UTF-8; reserved flag bits and
                  trailing bytes in fixed-size bodies are tolerated.
    """
    pkt = bytes(pkt)
    if len(pkt) < 2:
        raise RefError('short packet')
    t, flags = pkt[0] >> 4, pkt[0] & 0x0F
    if t not in NAMES:
        raise RefError('reserved packet type %d' % t)
    rl, ll = dec_len(pkt, 1)
    body = pkt[1 + ll:]
    if len(body) != rl:
        raise RefError('remaining length %d != body %d' % (rl, len(body)))
    name = NAMES[t]
    p = {'type': name, 'flags': flags}
    if strict and t != PUBLISH:
        want = FIXED_FLAGS[t]
        ok = flags == want or (level == 3 and t in V31_DUP_OK and flags == (want | 0x08))
        if not ok:
            raise RefError('%s flags 0x%x invalid for protocol level %d' % (name, flags, level))
    if t == PUBLISH:
        p['dup'], p['qos'], p['retain'] = bool(flags & 8), (flags >> 1) & 3, bool(flags & 1)
        if p['qos'] == 3:
            raise RefError('PUBLISH qos 3')
        if strict and p['qos'] == 0 and p['dup']:
            raise RefError('PUBLISH qos 0 with DUP')
        p['topic'], off = dec_str(body, 0)
        if p['qos']:
            p['msgId'] = dec_u16(body, off)
            off += 2
            if strict and p['msgId'] == 0:
                raise RefError('packet identifier 0')
        else:
            p['msgId'] = None
        p['payload'] = body[off:]
    elif t in (PUBACK, PUBREC, PUBREL, PUBCOMP, UNSUBACK):
        p['msgId'] = dec_u16(body, 0)
        p['dup'] = bool(flags & 8)
        if strict and len(body) != 2:
            raise RefError('%s body length %d' % (name, len(body)))
        if strict and p['msgId'] == 0:
            raise RefError('packet identifier 0')
    elif t == CONNACK:
        if len(body) < 2:
            raise RefError('short CONNACK')
        if strict and len(body) != 2:
            raise RefError('CONNACK body length')
        if strict and body[0] & 0xFE:
            raise RefError('CONNACK reserved ack flags')
        p['sp'], p['rc'] = bool(body[0] & 1), body[1]
    elif t == SUBACK:
        p['msgId'] = dec_u16(body, 0)
        p['codes'] = list(body[2:])
        if strict:
            if not p['codes']:
                raise RefError('SUBACK without return codes')
            for c in p['codes']:
                if c not in (0, 1, 2, 0x80):
                    raise RefError('SUBACK return code 0x%x' % c)
    elif t == SUBSCRIBE:
        p['msgId'] = dec_u16(body, 0)
        p['dup'] = bool(flags & 8)
        off, topics = 2, []
        while off < len(body):
            s, off = dec_str(body, off)
            if off >= len(body):
                raise RefError('SUBSCRIBE topic without qos')
            q = body[off]
            off += 1
            if strict and q > 2:
                raise RefError('SUBSCRIBE requested qos 0x%x' % q)
            topics.append((s, q))
        if strict and not topics:
            raise RefError('SUBSCRIBE without topics')
        if strict and p['msgId'] == 0:
            raise RefError('packet identifier 0')
        p['topics'] = topics
    elif t == UNSUBSCRIBE:
        p['msgId'] = dec_u16(body, 0)
        p['dup'] = bool(flags & 8)
        off, topics = 2, []
        while off < len(body):
            s, off = dec_str(body, off)
            topics.append(s)
        if strict and not topics:
            raise RefError('UNSUBSCRIBE without topics')
        if strict and p['msgId'] == 0:
            raise RefError('packet identifier 0')
        p['topics'] = topics
    elif t in (PINGREQ, PINGRESP, DISCONNECT):
        if strict and body:
            raise RefError('%s with a body' % name)
    elif t == CONNECT:
        pname, off = dec_str(body, 0)
        if off + 4 > len(body):
            raise RefError('short CONNECT')
        lvl, cf = body[off], body[off + 1]
        p['protocol'], p['level'] = pname, lvl
        if strict and PROTO.get(lvl) != pname:
            raise RefError('protocol name/level mismatch %r/%d' % (pname, lvl))
        if strict and cf & 1:
            raise RefError('CONNECT reserved flag')
        p['clean'] = bool(cf & 2)
        will = bool(cf & 4)
        p['willQoS'], p['willRetain'] = (cf >> 3) & 3, bool(cf & 0x20)
        if strict and not will and (p['willQoS'] or p['willRetain']):
            raise RefError('will qos/retain without will flag')
        if strict and p['willQoS'] == 3:
            raise RefError('will qos 3')
        if strict and (cf & 0x40) and not (cf & 0x80):
            raise RefError('password flag without user name flag')
        p['keepalive'] = dec_u16(body, off + 2)
        off += 4
        p['clientId'], off = dec_str(body, off)
        p['willTopic'] = p['willMessage'] = p['username'] = p['password'] = None
        if will:
            p['willTopic'], off = dec_str(body, off)
            p['willMessage'], off = dec_bin(body, off)
        if cf & 0x80:
            p['username'], off = dec_str(body, off)
        if cf & 0x40:
            p['password'], off = dec_bin(body, off)
        if strict and off != len(body):
            raise RefError('CONNECT trailing bytes')
    return p


def parse_writes(data, level=4, strict=False):
    """Split and decode; returns (packets, remainder, error or None)."""
    try:
        pkts, rest = split_stream(data)
    except RefError as e:
        return [], bytes(data), str(e)
    out = []
    for raw in pkts:
        try:
            d = decode(raw, level=level, strict=strict)
        except RefError as e:
            return out, raw, str(e)
        d['raw'] = raw
        out.append(d)
    return out, rest, None


# ----------------------------------------------------------------------------------------- self test

def selftest():
    """Byte examples taken from the specification text (not from the library)."""
    # 2.2.3 table 2.4 remaining length boundaries
    assert enc_len(0) == b'\x00' and enc_len(127) == b'\x7f'
    assert enc_len(128) == b'\x80\x01' and enc_len(16383) == b'\xff\x7f'
    assert enc_len(16384) == b'\x80\x80\x01' and enc_len(2097151) == b'\xff\xff\x7f'
    assert enc_len(2097152) == b'\x80\x80\x80\x01' and enc_len(268435455) == b'\xff\xff\xff\x7f'
    # 2.2.3 non-normative example: 321 = 65 + 2*128 -> 0xC1 0x02
    assert enc_len(321) == b'\xc1\x02' and dec_len(b'\xc1\x02') == (321, 2)
    for v in (0, 127, 128, 16383, 16384, 2097151, 2097152, 268435455):
        assert dec_len(enc_len(v)) == (v, len(enc_len(v)))
    # 1.5.3 non-normative example: U+2A6D4 -> 00 04 F0 AA 9B 94 ; "A" + it -> 00 05 41 F0 AA 9B 94
    assert enc_str('A\U0002A6D4') == b'\x00\x05A\xf0\xaa\x9b\x94'
    # 3.1.2.1 figure 3.2 protocol name bytes, 3.1.2.2 level 4
    c = enc_connect('cid', keepalive=10, clean=True, level=4)
    assert c[:2] == bytes([0x10, len(c) - 2])
    assert c[2:9] == b'\x00\x04MQTT\x04' and c[9] == 0x02 and c[10:12] == b'\x00\x0a'
    assert c[12:] == b'\x00\x03cid'
    c3 = enc_connect('cid', keepalive=10, clean=False, level=3)
    assert c3[2:11] == b'\x00\x06MQIsdp\x03' and c3[11] == 0x00
    # figure 3.4 style example: user+password+will qos1 retain clean -> flags 1110 1110 = 0xEE
    cf = enc_connect('c', 0, True, 4, 'wt', 'wm', 1, True, 'u', 'p')
    assert cf[9] == 0xEE
    # 3.2 CONNACK: 20 02 sp rc
    assert enc_connack(True, 0) == b'\x20\x02\x01\x00' and enc_connack(False, 5) == b'\x20\x02\x00\x05'
    # 3.3 PUBLISH figure 3.11: topic a/b id 10
    assert enc_publish('a/b', b'', qos=1, msgId=10) == b'\x32\x07\x00\x03a/b\x00\x0a'
    assert enc_publish('a/b', b'x', qos=0, retain=True) == b'\x31\x06\x00\x03a/bx'
    assert enc_publish('a/b', b'', qos=2, dup=True, msgId=0x1234)[0] == 0x3C
    # 3.4-3.7, 3.11 two-byte acks; PUBREL reserved bits 0010
    assert enc_ack('PUBACK', 0x0102) == b'\x40\x02\x01\x02' and enc_ack('PUBREC', 1) == b'\x50\x02\x00\x01'
    assert enc_ack('PUBREL', 1) == b'\x62\x02\x00\x01' and enc_ack('PUBCOMP', 1) == b'\x70\x02\x00\x01'
    assert enc_ack('UNSUBACK', 1) == b'\xb0\x02\x00\x01'
    # 3.8.3 figure 3.23 payload example: "a/b" qos 1, "c/d" qos 2
    assert enc_subscribe(10, [('a/b', 1), ('c/d', 2)]) == b'\x82\x0e\x00\x0a\x00\x03a/b\x01\x00\x03c/d\x02'
    # 3.9 SUBACK: 0x90, codes 00 01 02 80 ; figure 3.27 example 00 02 80
    assert enc_suback(10, [0, 2, 0x80]) == b'\x90\x05\x00\x0a\x00\x02\x80'
    # 3.10.3 figure 3.30 example
    assert enc_unsubscribe(10, ['a/b', 'c/d']) == b'\xa2\x0c\x00\x0a\x00\x03a/b\x00\x03c/d'
    assert enc_pingreq() == b'\xc0\x00' and enc_pingresp() == b'\xd0\x00' and enc_disconnect() == b'\xe0\x00'
    # decoder inverts encoder, strictly
    d = decode(cf)
    assert (d['clientId'], d['willTopic'], d['willMessage'], d['willQoS'], d['willRetain'], d['username'],
            d['password'], d['clean']) == ('c', 'wt', b'wm', 1, True, 'u', b'p', True)
    d = decode(enc_publish('té', 'pé', 2, True, True, 65535))
    assert (d['topic'], d['payload'], d['qos'], d['dup'], d['retain'], d['msgId']) == \
        ('té', 'pé'.encode(), 2, True, True, 65535)
    # strictness
    for bad in (b'\x72\x02\x00\x01', b'\x60\x02\x00\x01', b'\x80\x05\x00\x01\x00\x00\x00', b'\x36\x02\x00\x00',
                b'\x30\x02\x00\x05', b'\x30\x03\x00\x01\xff', b'\x40\x03\x00\x01\x00', b'\x00\x00', b'\xf0\x00',
                b'\x90\x03\x00\x01\x03', b'\x6a\x02\x00\x01'):
        try:
            decode(bad, level=4, strict=True)
        except RefError:
            continue
        raise AssertionError('strict decoder accepted %r' % bad)
    assert decode(b'\x6a\x02\x00\x01', level=3)['dup'] is True          # 3.1 allows DUP on PUBREL
    assert decode(b'\x72\x02\x00\x01', strict=False)['msgId'] == 1       # structural tolerates flag bits
    pk, rest = split_stream(b'\x40\x02\x00\x01\xd0\x00\x30')
    assert pk == [b'\x40\x02\x00\x01', b'\xd0\x00'] and rest == b'\x30'
    return True


if __name__ == '__main__':
    selftest()
    print('refcodec selftest ok')
