"""Bounded input grids for the codec properties (C01, C02 part A) and the helpers that run the REAL codec."""
import itertools

from . import world            # noqa: F401  (installs the virtual reactor, puts /repo/src on sys.path)
from . import refcodec as rc
import mqtt.pdu as pdu
from mqtt import v31, v311

VERS = {3: v31, 4: v311}

# UTF-8 class boundaries and MQTT-special characters
ALPHA24 = ['\x00', '\x01', 'a', '\x7f', '\x80', '\xe9', '\u07ff', '\u0800', '\u20ac', '\ud7ff', '\ue000', '\ufffd',
           '\uffff', '\U00010000', '\U0001F600', '\U0010FFFF', '/', '+', '#', '$', ' ', '\n', 'Z', '0']
IDS = [1, 2, 255, 256, 32767, 32768, 65534, 65535]
KEEPALIVES = [0, 1, 255, 256, 65535]


def length_class_strings():
    """For each UTF-8 width, strings whose BYTE length sits on each boundary."""
    out = []
    for ch in ('a', 'é', '€', '\U0001F600'):
        w = len(ch.encode('utf-8'))
        for n in (0, 1, 127, 128, 16383, 16384, 65535):
            for r in range(w):
                m = n - r
                if m < 0 or m % w:
                    continue
                out.append(ch * (m // w))
    return out


def text_grid(quick):
    g = ['', 'a', 'a/b', '#', '+/é/€', '\U0001F600', '\x00', 'x' * 127, 'x' * 128, '€' * 43]
    if not quick:
        g += ['x' * 16383, 'x' * 16384, 'é' * 32767, 'x' * 65535, '€' * 21845]
    return g


def payload_len_grid(quick, overhead):
    """Payload lengths that put the remaining length on each side of every 1/2/3(/4)-byte boundary."""
    out = []
    for b in (127, 128, 16383, 16384) + ((2097151, 2097152) if not quick else ()):
        for d in (-1, 0, 1):
            n = b + d - overhead
            if n >= 0:
                out.append(n)
    return sorted(set([0, 1, 2] + out))


# ---------------------------------------------------------------------------------- real codec drivers

def lib_encode(name, fields):
    o = getattr(pdu, name)()
    for k, v in fields.items():
        setattr(o, k, v)
    return o.encode()


def lib_decode(name, raw):
    o = getattr(pdu, name)()
    o.decode(bytearray(raw))
    return o


def ref_encode(name, f):
    if name == 'CONNECT':
        return rc.enc_connect(f['clientId'], f['keepalive'], f['cleanStart'], f['version']['level'], f.get('willTopic'),
                              f.get('willMessage'), f.get('willQoS') or 0, f.get('willRetain') or False, f.get('username'),
                              f.get('password'))
    if name == 'CONNACK':
        return rc.enc_connack(f['session'], f['resultCode'])
    if name == 'PUBLISH':
        return rc.enc_publish(f['topic'], f['payload'], f['qos'], f['dup'], f['retain'], f.get('msgId'))
    if name in ('PUBACK', 'PUBREC', 'PUBREL', 'PUBCOMP', 'UNSUBACK'):
        return rc.enc_ack(name, f['msgId'])
    if name == 'SUBSCRIBE':
        return rc.enc_subscribe(f['msgId'], f['topics'])
    if name == 'SUBACK':
        return rc.enc_suback(f['msgId'], [q | (0x80 if fl else 0) for (q, fl) in f['granted']])
    if name == 'UNSUBSCRIBE':
        return rc.enc_unsubscribe(f['msgId'], f['topics'])
    if name == 'PINGREQ':
        return rc.enc_pingreq()
    if name == 'PINGRES':
        return rc.enc_pingresp()
    if name == 'DISCONNECT':
        return rc.enc_disconnect()
    raise KeyError(name)


def expected_after_decode(name, f):
    """The field values the statement says must come back."""
    e = {}
    if name == 'CONNECT':
        e['version'] = f['version']
        e['cleanStart'] = bool(f['cleanStart'])
        e['keepalive'] = f['keepalive']
        e['clientId'] = f['clientId']
        if f.get('willTopic') is not None and f.get('willMessage') is not None:
            e['willTopic'], e['willMessage'] = f['willTopic'], f['willMessage']
            e['willQoS'], e['willRetain'] = f['willQoS'], bool(f['willRetain'])
        if f.get('username') is not None:
            e['username'] = f['username']
        if f.get('password') is not None:
            e['password'] = rc.as_bytes(f['password'])
    elif name == 'CONNACK':
        e['session'], e['resultCode'] = bool(f['session']), f['resultCode']
    elif name == 'PUBLISH':
        e['topic'], e['qos'], e['dup'], e['retain'] = f['topic'], f['qos'], bool(f['dup']), bool(f['retain'])
        e['msgId'] = f['msgId'] if f['qos'] else None
        e['payload'] = rc.as_bytes(f['payload'])
    elif name in ('PUBACK', 'PUBREC', 'PUBREL', 'PUBCOMP', 'UNSUBACK'):
        e['msgId'] = f['msgId']
    elif name == 'SUBSCRIBE':
        e['msgId'], e['topics'] = f['msgId'], [tuple(t) for t in f['topics']]
    elif name == 'SUBACK':
        e['msgId'], e['granted'] = f['msgId'], [(q, bool(fl)) for (q, fl) in f['granted']]
    elif name == 'UNSUBSCRIBE':
        e['msgId'], e['topics'] = f['msgId'], list(f['topics'])
    return e


def norm(v):
    if isinstance(v, (bytearray, bytes)):
        return bytes(v)
    if isinstance(v, list):
        return [norm(x) for x in v]
    if isinstance(v, tuple):
        return tuple(norm(x) for x in v)
    return v


# ---------------------------------------------------------------------------------- packet grids

def packet_cases(quick):
    """Yield (class name, fields) for every packet type x flag combination x grid values."""
    texts = text_grid(quick)
    some = texts[:6]
    # id-only packets: all 65535 identifiers
    for name in ('PUBACK', 'PUBREC', 'PUBREL', 'PUBCOMP', 'UNSUBACK'):
        for i in (range(1, 65536) if not quick or name in ('PUBACK', 'PUBREL') else IDS + list(range(1, 65536, 257))):
            yield name, {'msgId': i}
    for name in ('PINGREQ', 'PINGRES', 'DISCONNECT'):
        yield name, {}
    for sp in (False, True):
        for code in range(256):
            yield 'CONNACK', {'session': sp, 'resultCode': code}
    # PUBLISH: all valid flag combinations x ids x topics x payload kinds/lengths
    for qos in (0, 1, 2):
        for dup in ((False,) if qos == 0 else (False, True)):
            for retain in (False, True):
                for mid in ((None,) if qos == 0 else IDS):
                    for topic in (some if mid not in (None, 1, 65535) else texts):
                        for payload in ('', 'text', 'é€\U0001F600', bytearray(), bytearray(range(256)), bytearray(b'\x00\xff')):
                            yield 'PUBLISH', dict(qos=qos, dup=dup, retain=retain, msgId=mid, topic=topic, payload=payload)
    for qos in (0, 1):
        overhead = 2 + 3 + (2 if qos else 0)
        for n in payload_len_grid(quick, overhead):
            yield 'PUBLISH', dict(qos=qos, dup=False, retain=False, msgId=7 if qos else None, topic='t/l', payload=bytearray(n))
            if n < 70000:
                yield 'PUBLISH', dict(qos=qos, dup=False, retain=False, msgId=7 if qos else None, topic='t/l', payload='x' * n)
    # SUBSCRIBE / UNSUBSCRIBE: topic lists of 1..4 entries
    for mid in IDS:
        for k in (1, 2, 3, 4):
            for combo in itertools.islice(itertools.product(some, repeat=k), 0, None, 1 if k < 3 else (7 if quick else 3)):
                yield 'UNSUBSCRIBE', dict(msgId=mid, topics=list(combo))
                yield 'SUBSCRIBE', dict(msgId=mid, topics=[(t, (i + mid) % 3) for i, t in enumerate(combo)])
            if mid in (1, 65535):
                for t in texts:
                    yield 'UNSUBSCRIBE', dict(msgId=mid, topics=[t] * k)
                    yield 'SUBSCRIBE', dict(msgId=mid, topics=[(t, k % 3)] * k)
    for mid in IDS:
        for k in (0, 1, 2, 3):
            for combo in itertools.product(((0, False), (1, False), (2, False), (0, True)), repeat=k):
                yield 'SUBACK', dict(msgId=mid, granted=list(combo))
    # CONNECT: every flag combination
    for ver in (v31, v311):
        for clean in (False, True):
            for will in (False, True):
                for wq in ((0, 1, 2) if will else (0,)):
                    for wr in ((False, True) if will else (False,)):
                        for user in (None, 'u', 'üser€', ''):
                            for pw in ((None,) if user is None else (None, 'p', 'pässwörd€', '\U0001F600' * 3, '')):
                                for ka in KEEPALIVES:
                                    for cid in ('', 'c', 'c' * 23, 'clïent-€'):
                                        f = dict(version=ver, cleanStart=clean, keepalive=ka, clientId=cid, username=user,
                                                 password=pw, willTopic=None, willMessage=None, willQoS=wq, willRetain=wr)
                                        if will:
                                            f['willTopic'], f['willMessage'] = 'w/é', 'bye €'
                                        yield 'CONNECT', f
    for field in ('clientId', 'willTopic', 'willMessage', 'username', 'password'):
        for t in texts:
            f = dict(version=v311, cleanStart=True, keepalive=60, clientId='c', username='u', password='p',
                     willTopic='w', willMessage='m', willQoS=1, willRetain=False)
            f[field] = t
            yield 'CONNECT', f


def unrepresentable_cases():
    """(class name, fields, what) that must raise ValueError/TypeError and produce no bytes."""
    big = 'x' * 65536
    bigu = '€' * 21846
    base_c = dict(version=v311, cleanStart=True, keepalive=60, clientId='c', username='u', password='p',
                  willTopic='w', willMessage='m', willQoS=1, willRetain=False)
    for field in ('clientId', 'willTopic', 'willMessage', 'username', 'password'):
        for s in (big, bigu):
            f = dict(base_c)
            f[field] = s
            yield 'CONNECT', f, 'string>65535 in %s' % field
    for ka in (-1, 65536, 2 ** 32, None):
        f = dict(base_c)
        f['keepalive'] = ka
        yield 'CONNECT', f, 'keepalive %r' % (ka,)
    for name in ('PUBACK', 'PUBREC', 'PUBREL', 'PUBCOMP', 'UNSUBACK'):
        for i in (-1, 65536, 2 ** 32, None):
            yield name, {'msgId': i}, 'id %r' % (i,)
    for i in (-1, 65536, 2 ** 32, None):
        yield 'PUBLISH', dict(qos=1, dup=False, retain=False, msgId=i, topic='t', payload='p'), 'id %r' % (i,)
        yield 'SUBSCRIBE', dict(msgId=i, topics=[('t', 1)]), 'id %r' % (i,)
        yield 'UNSUBSCRIBE', dict(msgId=i, topics=['t']), 'id %r' % (i,)
    for s in (big, bigu):
        yield 'PUBLISH', dict(qos=0, dup=False, retain=False, msgId=None, topic=s, payload='p'), 'topic>65535'
        yield 'SUBSCRIBE', dict(msgId=1, topics=[('t', 1), (s, 0)]), 'topic>65535'
        yield 'UNSUBSCRIBE', dict(msgId=1, topics=[s]), 'topic>65535'
    for pl in (5, 1.5, b'bytes', None, ['l'], True, {'a': 1}):
        for q in (0, 1):
            yield 'PUBLISH', dict(qos=q, dup=False, retain=False, msgId=5 if q else None, topic='t', payload=pl), \
                'payload %s' % type(pl).__name__
