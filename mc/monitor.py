"""Monitor base class: an incremental automaton over the observation log of one World."""
from .explorer import V


class Monitor(object):
    def __init__(self, w, scn):
        self.scn = scn
        self.wit = {}

    def step(self, w):
        return []

    def before_last(self, w, ev):
        """Called on the world reached by the parent history, just before the last event is applied."""
        return None

    def key(self, w):
        """Whatever the monitor remembers about the past that is not already in the canonical world dump or the
        request table; part of the state key (two histories merge only if the monitor cannot tell them apart)."""
        return ()

    def at_end(self, w):
        return []

    def witnesses(self):
        d, self.wit = self.wit, {}
        return d

    def see(self, k, n=1):
        self.wit[k] = self.wit.get(k, 0) + n

    def outcome(self, w):
        return None


def pubs(w, a=None):
    return [r for r in w.reqs if r.kind == 'pub' and (a is None or r.addr == a)]


def accepted(r):
    """publish()/subscribe()/... returned a Deferred that did not fail within the call step."""
    if r.ret != 'deferred':
        return False
    if r.fires and r.fires[0][1] == 'err' and r.fires[0][0] == r.call_step:
        return False
    return True


__all__ = ['Monitor', 'V', 'pubs', 'accepted']


from . import refcodec as _rc


def rx_packets(w):
    """[(conn idx, packet dict)] for every complete broker packet delivered in this step (reference decoder)."""
    out = []
    for o in w.new_obs():
        if o[0] == 'rx':
            try:
                pk, _ = _rc.split_stream(o[2])
            except _rc.RefError:
                continue
            for raw in pk:
                try:
                    d = _rc.decode(raw, strict=False)
                except _rc.RefError:
                    continue
                out.append((o[1], d))
    return out


def writes(w):
    """[(conn idx, packet dict, obs)] for every packet written in this step."""
    out = []
    for o in w.new_obs():
        if o[0] == 'w':
            for p in o[5]:
                out.append((o[1], p, o))
    return out


def fires(w, kinds=('pub', 'sub', 'unsub', 'connect')):
    """[(req, how, value, is_reason)] Deferred firings observed in this step."""
    out = []
    for o in w.new_obs():
        if o[0] == 'fire' and o[1] >= 0:
            r = w.reqs[o[1]]
            if r.kind in kinds:
                out.append((r, o[2], o[3], o[4]))
    return out


def pending_before(w, r):
    """Was request r pending (returned a Deferred, not fired) when this step started?"""
    return r.ret == 'deferred' and r.call_step < w.step and not any(f[0] < w.step for f in r.fires)


CONNECTED = (('connect', 0, True, 0, 4), ('connack', 0, 0, False))
CONNECTED_P = (('connect', 0, False, 0, 4), ('connack', 0, 0, False))


def is_idle(c):
    """The protocol of connection c is in its idle state (read from the implementation, tolerant of renames: the object
    published as `protocol.IDLE`, or any state whose class name says idle)."""
    st = getattr(c.proto, 'state', None)
    return st is getattr(c.proto, 'IDLE', object()) or 'idle' in type(st).__name__.lower()
