"""Monitor base class: an incremental automaton over the observation log of one World."""
from .explorer import V


class Monitor(object):
    def __init__(self, w, scn):
        self.scn = scn
        self.wit = {}

    def step(self, w):
        return []

    def key(self):
        return ()

    def at_end(self, w):
        return []

    def witnesses(self):
        d, self.wit = self.wit, {}
        return d

    def see(self, k, n=1):
        self.wit[k] = self.wit.get(k, 0) + n

    def outcome(self, w):
        return None


def pubs(w, a=None):
    return [r for r in w.reqs if r.kind == 'pub' and (a is None or r.addr == a)]


def accepted(r):
    """publish()/subscribe()/... returned a Deferred that did not fail within the call step."""
    if r.ret != 'deferred':
        return False
    if r.fires and r.fires[0][1] == 'err' and r.fires[0][0] == r.call_step:
        return False
    return True


__all__ = ['Monitor', 'V', 'pubs', 'accepted']
