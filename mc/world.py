"""The closed system: virtual reactor, harness transport, jitter source, and the World that replays a symbolic
event history against the REAL twisted-mqtt code while recording one ordered observation log.

Import order matters: this module installs the virtual reactor *before* `mqtt` is imported, so that
`MQTTBaseProtocol.callLater = reactor.callLater` and `task.LoopingCall`'s default clock land on it.
"""
import os
import sys

os.environ.setdefault('PYTHONDONTWRITEBYTECODE', '1')
sys.dont_write_bytecode = True

from twisted.internet.task import Clock, LoopingCall   # noqa: E402
from twisted.internet import main as _main             # noqa: E402


class VReactor(object):
    """Proxy installed as twisted.internet.reactor; delegates time to the current World's Clock."""

    def __init__(self):
        self.clock = Clock()

    def reset(self):
        self.clock = Clock()
        return self.clock

    def callLater(self, delay, f, *a, **k):
        return self.clock.callLater(delay, f, *a, **k)

    def seconds(self):
        return self.clock.seconds()

    def getDelayedCalls(self):
        return self.clock.getDelayedCalls()

    # things a reactor user might touch; anything else fails loudly (harness error, not a verdict)
    running = True

    def addSystemEventTrigger(self, *a, **k):
        return None

    def callFromThread(self, f, *a, **k):
        return self.clock.callLater(0, f, *a, **k)

    def callWhenRunning(self, f, *a, **k):
        return self.clock.callLater(0, f, *a, **k)


if 'twisted.internet.reactor' in sys.modules and not isinstance(sys.modules['twisted.internet.reactor'], VReactor):
    raise RuntimeError('a real reactor is already installed; import mc.world first')
if 'twisted.internet.reactor' not in sys.modules:
    REACTOR = VReactor()
    _main.installReactor(REACTOR)
else:
    REACTOR = sys.modules['twisted.internet.reactor']

REPO = os.path.realpath(os.environ.get('VERIF_REPO', '/repo'))
_src = os.path.join(REPO, 'src')
if _src not in sys.path:
    sys.path.insert(0, _src)

import mqtt                                              # noqa: E402
if not os.path.realpath(mqtt.__file__).startswith(REPO + os.sep):
    raise RuntimeError('mqtt imported from %s, expected under %s' % (mqtt.__file__, REPO))

from twisted.internet import defer, error               # noqa: E402
from twisted.internet.address import IPv4Address        # noqa: E402
from twisted.python import failure                      # noqa: E402

from mqtt import v31, v311                              # noqa: E402
from mqtt.client.factory import MQTTFactory              # noqa: E402
import mqtt.client.base as _base                         # noqa: E402
import mqtt.client.pubsubs as _pubsubs                   # noqa: E402
import mqtt.client.publisher as _publisher               # noqa: E402
import mqtt.client.subscriber as _subscriber             # noqa: E402
import mqtt.client.factory as _factory                   # noqa: E402
import mqtt.client.interval as _interval                 # noqa: E402
import mqtt.pdu as _pdu                                  # noqa: E402

from . import refcodec as rc                             # noqa: E402


class NullLogger(object):
    def _n(self, *a, **k):
        return None
    debug = info = warn = error = critical = failure = emit = _n


class Jitter(object):
    """Stands in for the `random` module inside mqtt.client.interval."""
    value = 0.0
    draws = None

    def random(self):
        if Jitter.draws is not None:
            Jitter.draws.append(Jitter.value)
        return Jitter.value


_REAL_LOGS = {}


def install_patches(null_log=True):
    _interval.random = Jitter()
    for m in (_base, _pubsubs, _publisher, _subscriber, _factory, _pdu):
        if m not in _REAL_LOGS:
            _REAL_LOGS[m] = m.log
        m.log = NullLogger() if null_log else _REAL_LOGS[m]
    # the class attribute may have been bound by a test-suite style patch; make sure it is ours
    _base.MQTTBaseProtocol.callLater = REACTOR.callLater


install_patches()

PROFILES = {'sub': MQTTFactory.SUBSCRIBER, 'pub': MQTTFactory.PUBLISHER,
            'pubsub': MQTTFactory.SUBSCRIBER | MQTTFactory.PUBLISHER}
VERSIONS = {3: v31, 4: v311}
ADDRS = [IPv4Address('TCP', 'broker-a', 1883), IPv4Address('TCP', 'broker-b', 1883)]

PAYLOADS = {
    'short': b'hello',
    'empty': b'',
    'nonascii': 'café € \U0001F600'.encode('utf-8'),
    'binary': bytes([0, 255, 128, 10, 13]),
    'large': bytes(range(256)) * 3,
}
IN_TOPICS = {'short': 'in/a', 'empty': 'in/e', 'nonascii': 'in/ñ/€', 'binary': 'in/b', 'large': 'in/L'}


class VTransport(object):
    """Harness transport.  mode 'sync' = StringTransportWithDisconnection semantics (close calls
    connectionLost re-entrantly); mode 'async' = real TCP semantics (close only marks, the loss is its own event)."""

    def __init__(self, world, conn):
        self.world, self.conn = world, conn
        self.connected = True
        self.disconnecting = False

    def write(self, data):
        self.world._on_write(self.conn, data)

    def writeSequence(self, seq):
        for d in seq:
            self.write(d)

    def loseConnection(self, *a):
        self.world._on_close(self.conn, 'lose')

    def abortConnection(self):
        self.world._on_close(self.conn, 'abort')

    def getPeer(self):
        return ADDRS[self.conn.addr]

    def getHost(self):
        return IPv4Address('TCP', 'client', 40000 + self.conn.idx)

    def setTcpNoDelay(self, x):
        pass

    def setTcpKeepAlive(self, x):
        pass

    def pauseProducing(self):
        pass

    def resumeProducing(self):
        pass

    def stopProducing(self):
        self.loseConnection()

    def registerProducer(self, *a):
        pass

    def unregisterProducer(self):
        pass


class Conn(object):
    __slots__ = ('idx', 'addr', 'proto', 'transport', 'phase', 'close_req', 'lost', 'loss_reason', 'pending_loss',
                 'level', 'clean', 'keepalive', 'window', 'timeout', 'connect_req', 'nwrites', 'lost_step',
                 'connack_step', 'connect_step', 'inbuf_pkts', 'disc_written', 'close_step', 'n_connects',
                 'connect_time', 'connack_time', 'lost_time')

    def __init__(self, idx, addr):
        self.idx, self.addr = idx, addr
        self.phase = 'new'            # new -> connecting -> connected | refused ; 'lost' flag separately
        self.close_req = None         # None | 'lose' | 'abort'   (first close request wins)
        self.close_step = None
        self.lost = False
        self.loss_reason = None
        self.pending_loss = None      # async: loss the client asked for, not yet delivered
        self.level = 4
        self.clean = True
        self.keepalive = 0
        self.window = 1
        self.timeout = 4
        self.connect_req = None
        self.nwrites = 0
        self.lost_step = None
        self.connack_step = None
        self.connect_step = None
        self.disc_written = False
        self.n_connects = 0
        self.connect_time = self.connack_time = self.lost_time = None

    @property
    def open(self):
        return not self.lost and self.close_req is None


class Req(object):
    """One API request as the harness sees it."""
    __slots__ = ('idx', 'kind', 'addr', 'conn', 'args', 'd', 'ret', 'msgId', 'fires', 'tx', 'rel_tx', 'acks',
                 'call_step', 'call_phase', 'exc', 'exc_mro')

    def __init__(self, idx, kind, addr, conn, args, step, phase):
        self.idx, self.kind, self.addr, self.conn, self.args = idx, kind, addr, conn, args
        self.d = None
        self.ret = None               # 'deferred' | 'raise' | 'value'
        self.exc = None               # exception class name if raised
        self.exc_mro = ()             # class names in the MRO of the exception raised / failed with
        self.msgId = None
        self.fires = []               # (step, 'ok'|'err', value canon | exc class name, is_loss_reason)
        self.tx = []                  # (step, conn idx, dup, msgId on the wire)
        self.rel_tx = []              # PUBREL transmissions (step, conn idx, dup)
        self.acks = []                # (step, name) delivered to its connection bearing its id while unsettled
        self.call_step = step
        self.call_phase = phase

    @property
    def pending(self):
        return self.ret == 'deferred' and not self.fires

    @property
    def ok(self):
        return bool(self.fires) and self.fires[0][1] == 'ok'

    @property
    def failed(self):
        return bool(self.fires) and self.fires[0][1] == 'err'

    @property
    def qos(self):
        return self.args.get('qos')

    def acked(self, name):
        return any(a[1] == name for a in self.acks)


def _valcanon(v):
    if isinstance(v, (int, float, str, bytes, bool)) or v is None:
        return v
    if isinstance(v, (list, tuple)):
        return tuple(_valcanon(x) for x in v)
    return type(v).__name__


class ObsLog(list):
    """The observation log; remembers the virtual time of every entry in the parallel list .t"""

    def __init__(self, clock):
        list.__init__(self)
        self.clock = clock
        self.t = []

    def append(self, x):
        list.append(self, x)
        self.t.append(self.clock.rightNow)


class World(object):

    def __init__(self, cfg):
        self.cfg = cfg
        self.profile = cfg.get('profile', 'pubsub')
        self.mode = cfg.get('mode', 'sync')
        self.naddr = cfg.get('naddr', 1)
        self.split = cfg.get('split', False)
        self.clock = REACTOR.reset()
        Jitter.value = 0.0
        Jitter.draws = self.draws = []
        self.jitter = 0.0
        if self.split:
            self.factories = [MQTTFactory(PROFILES[self.profile]) for _ in range(self.naddr)]
        else:
            f = MQTTFactory(PROFILES[self.profile])
            self.factories = [f] * self.naddr
        for f in set(self.factories):
            f.id = cfg.get('id0', 0)
        self.conns = []               # all connections ever built, in order
        self.cur = [None] * self.naddr    # current connection index per address
        self.reqs = []
        self.calls = []
        self.reentered = 0
        self.obs = ObsLog(self.clock)  # THE observation log (ordered, written at event time)
        self.hist = []
        self.step = 0
        self.mark = 0
        self.counts = {}
        self.exc_count = 0
        self.tick_info = None
        for a in cfg.get('auto_build', range(self.naddr)):
            self._build(a)
        self.mark = len(self.obs)

    # ------------------------------------------------------------------ plumbing

    def factory(self, a):
        return self.factories[a]

    def conn(self, a):
        i = self.cur[a]
        return None if i is None else self.conns[i]

    def _build(self, a):
        c = Conn(len(self.conns), a)
        self.conns.append(c)
        self.cur[a] = c.idx
        c.proto = self.factory(a).buildProtocol(ADDRS[a])
        c.transport = VTransport(self, c)
        w = self

        def onDisconnection(reason, c=c):
            w.obs.append(('cb', 'onDisconnection', c.idx, reason is c.loss_reason))
        onDisconnection._verif_rec = 'onDisconnection'

        def onPublish(topic, payload, qos, dup, retain, msgId, c=c):
            w.obs.append(('cb', 'onPublish', c.idx,
                          (topic, bytes(payload) if isinstance(payload, (bytes, bytearray)) else payload,
                           qos, bool(dup), bool(retain), msgId)))
            w._reenter('onPublish', c.addr, 1)
        onPublish._verif_rec = 'onPublish'

        def onMqttConnectionMade(c=c):
            w.obs.append(('cb', 'onMqttConnectionMade', c.idx, None))
            w._reenter('onMqttConnectionMade', c.addr, 1)
        onMqttConnectionMade._verif_rec = 'onMqttConnectionMade'

        if self.cfg.get('ondisc', True):
            c.proto.onDisconnection = onDisconnection
        if self.cfg.get('onpub', True):
            c.proto.onPublish = onPublish
        if self.cfg.get('onmade', True):
            c.proto.onMqttConnectionMade = onMqttConnectionMade
        self.obs.append(('build', c.idx, a))
        c.proto.makeConnection(c.transport)
        return c

    def _on_write(self, conn, data):
        raw = bytes(data)
        pkts, rest, err = rc.parse_writes(raw, level=conn.level, strict=False)
        conn.nwrites += 1
        self.obs.append(('w', conn.idx, raw, conn.close_req is not None, conn.lost, pkts, err or (rest and 'partial')))
        for p in pkts:
            self._attribute(conn, p)

    def _attribute(self, conn, p):
        """Map a written packet back to the API request it belongs to (by tag / identifier)."""
        t = p['type']
        r = None
        if t == 'PUBLISH':
            r = self._req_by_tag(p['topic'], 't')
            if r is not None:
                r.tx.append((self.step, conn.idx, p['dup'], p['msgId'], p['raw'], self.clock.rightNow, self.jitter))
        elif t in ('SUBSCRIBE', 'UNSUBSCRIBE'):
            tp = p['topics'][0] if p['topics'] else None
            if t == 'SUBSCRIBE' and tp is not None:
                tp = tp[0]
            r = self._req_by_tag(tp, 's' if t == 'SUBSCRIBE' else 'u') if tp else None
            if r is not None:
                r.tx.append((self.step, conn.idx, p['dup'], p['msgId'], p['raw'], self.clock.rightNow, self.jitter))
        elif t == 'PUBREL':
            for q in reversed(self.reqs):
                if q.kind == 'pub' and q.addr == conn.addr and q.msgId == p['msgId'] and q.qos == 2:
                    q.rel_tx.append((self.step, conn.idx, p['dup'], p['msgId'], p['raw'], self.clock.rightNow, self.jitter))
                    r = q
                    break
        elif t == 'DISCONNECT':
            conn.disc_written = True
        p['req'] = None if r is None else r.idx

    def _req_by_tag(self, topic, letter):
        if not isinstance(topic, str):
            return None
        parts = topic.split('/')
        if len(parts) >= 2 and parts[0] == letter and parts[1].isdigit():
            i = int(parts[1])
            if i < len(self.reqs):
                return self.reqs[i]
        return None

    def _on_close(self, conn, how):
        self.obs.append(('close', conn.idx, how, conn.lost))
        if conn.lost:
            return
        if conn.close_req is None:
            conn.close_req = how
            conn.close_step = self.step
        if self.mode == 'sync':
            exc = error.ConnectionDone('Bye.')
            self._conn_lost(conn, failure.Failure(exc))
        else:
            if conn.pending_loss is None:
                conn.pending_loss = 'done' if how == 'lose' else 'aborted'
            elif how == 'abort':
                conn.pending_loss = 'aborted'

    def _conn_lost(self, conn, reason):
        if conn.lost:
            return
        conn.lost = True
        conn.lost_step = self.step
        conn.lost_time = self.clock.rightNow
        conn.loss_reason = reason
        conn.pending_loss = None
        conn.transport.connected = False
        self.obs.append(('lost', conn.idx, reason.type.__name__))
        try:
            conn.proto.connectionLost(reason)
        except Exception as e:           # noqa
            self._exc('connectionLost', conn.idx, e)
        self.obs.append(('lostdone', conn.idx))

    def _exc(self, where, ci, e):
        self.exc_count += 1
        self.obs.append(('exc', where, ci, type(e).__name__, str(e)[:100]))

    def deliver(self, conn, data):
        self.obs.append(('rx', conn.idx, bytes(data)))
        try:
            conn.proto.dataReceived(bytes(data))
        except Exception as e:           # noqa
            self._exc('dataReceived', conn.idx, e)
            # a real reactor drops a connection whose protocol raised out of dataReceived
            if not conn.lost:
                self._conn_lost(conn, failure.Failure(e))

    TRACKED = ('connect', 'pub', 'sub', 'unsub')

    def _api(self, kind, conn, args, fn):
        if kind in self.TRACKED:
            args['timeout_at_call'] = conn.timeout
            r = Req(len(self.reqs), kind, conn.addr, conn.idx, args, self.step, self.phase(conn))
            self.reqs.append(r)
        else:       # setters, disconnect, probes: recorded, but they do not shift request numbering / tags
            r = Req(-1 - len(self.calls), kind, conn.addr, conn.idx, args, self.step, self.phase(conn))
            self.calls.append(r)
        self.obs.append(('call', r.idx, kind, conn.idx))
        try:
            d = fn(r)
        except Exception as e:           # noqa
            r.ret, r.exc = 'raise', type(e).__name__
            r.exc_mro = tuple(k.__name__ for k in type(e).__mro__)
            self.obs.append(('ret', r.idx, 'raise', r.exc))
            return r
        if isinstance(d, defer.Deferred):
            r.d, r.ret = d, 'deferred'
            r.msgId = getattr(d, 'msgId', None)
            self.obs.append(('ret', r.idx, 'deferred', r.msgId))
            w = self

            def ok(v, r=r):
                r.fires.append((w.step, 'ok', _valcanon(v), False))
                w.obs.append(('fire', r.idx, 'ok', _valcanon(v), False))
                # optional: the application calls the API again from inside this callback (once per world)
                if r.call_step < w.step:
                    w._reenter('ok:' + r.kind, r.addr, r.qos)
                if w.cfg.get('cb_deferred'):
                    # the application's callback chains further asynchronous work: it returns a Deferred that has not
                    # fired yet, which pauses everything added to the library's Deferred after it
                    return defer.Deferred()
                return 'application-callback-result'

            def err(f, r=r):
                c = w.conns[r.conn]
                isr = (c.loss_reason is not None and (f is c.loss_reason or f.value is c.loss_reason.value))
                if not isr:    # a request carried over to a later connection of the address may fail with ITS loss
                    for c2 in w.conns:
                        if c2.addr == r.addr and c2.idx > r.conn and c2.loss_reason is not None and \
                                (f is c2.loss_reason or f.value is c2.loss_reason.value):
                            isr = True
                r.exc_mro = tuple(k.__name__ for k in f.type.__mro__)
                r.fires.append((w.step, 'err', f.type.__name__, isr))
                w.obs.append(('fire', r.idx, 'err', f.type.__name__, isr))
                if r.call_step < w.step:
                    w._reenter('err:' + r.kind, r.addr, r.qos)
            ok._verif_rec = err._verif_rec = 'deferred-recorder'
            d.addCallbacks(ok, err)
        else:
            r.ret = 'value'
            self.obs.append(('ret', r.idx, 'value', _valcanon(d)))
        return r

    def _reenter(self, trigger, addr, qos=None):
        """Re-entrant use of the API: cfg['reenter'] lists 'trigger>action' (e.g. 'ok:pub>pub', 'err:pub>pub',
        'ok:pub>disconnect', 'onPublish>disconnect'); a bare kind k means 'ok:k>k'.  The first matching trigger of a world
        performs its action from inside the callback (once per world)."""
        if self.reentered >= self.cfg.get('reenter_max', 1):
            return
        for spec in self.cfg.get('reenter', ()):
            trig, act = spec.split('>') if '>' in spec else ('ok:' + spec, spec)
            minconn = 0
            if '@' in trig:                 # 'trigger@n': only on the n-th or a later connection of the address
                trig, n = trig.split('@')
                minconn = int(n)
            if trig not in (trigger, '%s%s' % (trigger, qos if trigger.endswith(':pub') else '')):
                continue
            if sum(1 for c in self.conns if c.addr == addr) - 1 < minconn:
                continue
            self.reentered += 1
            self.obs.append(('reenter', trigger, act))
            c = self.conn(addr)
            if act == 'pub':
                self.ev_pub(addr, qos if qos is not None else 1)
            elif act in ('pub0', 'pub1', 'pub2'):
                self.ev_pub(addr, int(act[3]))
            elif act == 'connect':
                self.ev_connect(addr, True, 0, 4)
            elif act.startswith('setwin'):
                self.ev_setwin(addr, int(act[6:]))
            elif act == 'sub':
                self.ev_sub(addr, 'str')
            elif act == 'unsub':
                self.ev_unsub(addr, 'str')
            elif act == 'disconnect':
                self.ev_disconnect(addr)
            return

    def phase(self, conn):
        """The reference protocol phase, derived from what the harness has seen (not from proto.state)."""
        if conn.lost:
            return 'lost'
        return conn.phase

    def session_alive(self, r):
        """Is request r, made on connection r.conn, legitimately still part of the session of the current
        connection of its address?  (every connection from r.conn to the current one opened with cleanStart=False)"""
        cur = self.cur[r.addr]
        if r.conn == cur:
            return True
        for c in self.conns:
            if c.addr == r.addr and r.conn <= c.idx <= cur and c.n_connects and c.clean:
                return False
        return True

    # ------------------------------------------------------------------ events

    def apply(self, ev):
        self.step += 1
        self.hist.append(ev)
        self.mark = len(self.obs)
        self.counts[ev[0]] = self.counts.get(ev[0], 0) + 1
        self.tick_info = None
        getattr(self, 'ev_' + ev[0])(*ev[1:])
        return self

    def new_obs(self):
        return self.obs[self.mark:]

    def ev_connect(self, a, clean=True, ka=0, ver=4, extra=None):
        c = self.conn(a)
        kw = dict(clientId='verif-%d' % a, keepalive=ka, cleanStart=clean, version=VERSIONS.get(ver, ver))
        if extra:
            kw.update(dict(extra))
        prev_phase = self.phase(c)
        nw0 = c.nwrites
        r = self._api('connect', c, dict(clean=clean, ka=ka, ver=ver, extra=extra), lambda r: c.proto.connect(**kw))
        if r.ret == 'deferred' and c.nwrites > nw0:
            # a CONNECT went out: the handshake is on
            c.n_connects += 1
            if prev_phase in ('new', 'refused'):
                c.phase = 'connecting'
            c.connect_req = r.idx
            c.clean, c.keepalive, c.level = bool(clean), ka, ver if ver in (3, 4) else 4
            c.connect_step = self.step
            c.connect_time = self.clock.rightNow

    def ev_badconnect(self, a, clean=True):
        """connect() with an invalid argument (keepalive 70000): refused, nothing written, the protocol stays as it was."""
        self.ev_connect(a, bool(clean), 70000, 4)

    def ev_reconn2(self, a, clean=True, ka=0, ver=4):
        """connect() called again on a protocol object that already went through a handshake."""
        self.ev_connect(a, clean, ka, ver)

    def ev_disconnect(self, a):
        c = self.conn(a)
        self._api('disconnect', c, {}, lambda r: c.proto.disconnect())

    def ev_pub(self, a, qos, retain=False, pkind='short', payload_type='str'):
        c = self.conn(a)

        def go(r):
            topic = 't/%d' % r.idx
            if pkind == 'short':
                body = 'm%d' % r.idx
            elif pkind == 'big':
                body = 'm%d' % r.idx + 'x' * 1000
            elif pkind == 'huge':
                body = 'm%d' % r.idx + 'y' * 20000
            elif pkind == 'rl128':      # remaining length of exactly 128 bytes: the first value needing two length bytes
                body = ('m%d' % r.idx).ljust(128 - 2 - len(topic) - (2 if qos else 0), 'z')
            else:
                body = PAYLOADS[pkind].decode('latin-1')
            if payload_type == 'bytearray':
                body = bytearray(body.encode('utf-8'))
            r.args['topic'], r.args['payload'] = topic, rc.as_bytes(body)
            return c.proto.publish(topic=topic, message=body, qos=qos, retain=retain)
        self._api('pub', c, dict(qos=qos, retain=retain, pkind=pkind), go)

    def ev_sub(self, a, shape='str', qos=1):
        c = self.conn(a)

        def go(r):
            t0, t1 = 's/%d/0' % r.idx, 's/%d/1' % r.idx
            if shape == 'str':
                r.args['topics'] = [(t0, qos)]
                return c.proto.subscribe(t0, qos)
            if shape == 'tuple':
                r.args['topics'] = [(t0, qos)]
                return c.proto.subscribe((t0, qos))
            if shape == 'empty':
                r.args['topics'] = []
                return c.proto.subscribe([])
            r.args['topics'] = [(t0, qos), (t1, (qos + 1) % 3)]
            return c.proto.subscribe([(t0, qos), (t1, (qos + 1) % 3)])
        self._api('sub', c, dict(shape=shape, qos=qos), go)

    def ev_unsub(self, a, shape='str'):
        c = self.conn(a)

        def go(r):
            t0, t1 = 'u/%d/0' % r.idx, 'u/%d/1' % r.idx
            if shape == 'str':
                r.args['topics'] = [t0]
                return c.proto.unsubscribe(t0)
            if shape == 'empty':
                r.args['topics'] = []
                return c.proto.unsubscribe([])
            r.args['topics'] = [t0, t1]
            return c.proto.unsubscribe([t0, t1])
        self._api('unsub', c, dict(shape=shape), go)

    def ev_setwin(self, a, n):
        c = self.conn(a)
        r = self._api('setwin', c, dict(n=n), lambda r: c.proto.setWindowSize(n))
        if r.ret == 'value':
            c.window = n

    def ev_settimeout(self, a, t):
        c = self.conn(a)
        r = self._api('settimeout', c, dict(t=t), lambda r: c.proto.setTimeout(t))
        if r.ret == 'value':
            c.timeout = t

    def ev_setbw(self, a, b, f=2):
        c = self.conn(a)
        self._api('setbw', c, dict(b=b, f=f), lambda r: c.proto.setBandwith(b, f))

    def ev_appping(self, a):
        """The application calls the public ping() helper itself."""
        c = self.conn(a)
        self._api('ping', c, {}, lambda r: c.proto.ping())

    def ev_call(self, a, name, args=(), kwargs=None):
        """Free-form API call (C20 / C14 probes)."""
        c = self.conn(a)
        self._api('call:' + name, c, dict(args=repr(args)[:200], kwargs=repr(kwargs)[:200]),
                  lambda r: getattr(c.proto, name)(*args, **(kwargs or {})))

    # -- broker -> client

    def _note_ack(self, conn, name, mid):
        for q in self.reqs:
            if q.addr == conn.addr and q.msgId == mid and q.pending and q.kind in ('pub', 'sub', 'unsub') and q.tx:
                q.acks.append((self.step, name))       # acks for an id whose packet was never sent are not acks of it

    def ev_connack(self, a, rcode=0, sp=False):
        c = self.conn(a)
        was = self.phase(c)
        if was == 'connecting':
            c.phase = 'connected' if rcode == 0 else 'refused'
            c.connack_step = self.step
            c.connack_time = self.clock.rightNow
        self.deliver(c, rc.enc_connack(sp, rcode))

    def target_id(self, a, tgt):
        if tgt[0] in ('r', 'd'):
            return self.reqs[tgt[1]].msgId
        if tgt[0] == 'stray':
            return ((self.factory(a).id + 7 + tgt[1]) % 65535) + 1
        if tgt[0] == 'id':
            return tgt[1]
        raise ValueError(tgt)

    def ev_ack(self, a, name, tgt):
        c = self.conn(a)
        mid = self.target_id(a, tgt)
        self._note_ack(c, name, mid)
        self.deliver(c, rc.enc_ack(name, mid))

    ev_dack = ev_ack

    def ev_misack(self, a, name, tgt):
        """An acknowledgement of the wrong type for the exchange (PUBREC for a QoS 1 id, PUBACK for a QoS 2 id): it is
        delivered but NOT recorded as an acknowledgement of the request."""
        self.deliver(self.conn(a), rc.enc_ack(name, self.target_id(a, tgt)))

    def ev_dupconnack(self, a, rcode=0, sp=False):
        self.ev_connack(a, rcode, sp)

    def ev_suback(self, a, tgt, codes=(1,)):
        c = self.conn(a)
        mid = self.target_id(a, tgt)
        self._note_ack(c, 'SUBACK', mid)
        self.deliver(c, rc.enc_suback(mid, list(codes)))

    def ev_inpub(self, a, qos, dup=False, retain=False, mid=1, pkind='short'):
        c = self.conn(a)
        self.deliver(c, rc.enc_publish(IN_TOPICS[pkind], PAYLOADS[pkind], qos, dup, retain, mid if qos else None))

    def ev_inrel(self, a, mid=1, dup=False):
        c = self.conn(a)
        self.deliver(c, rc.enc_ack('PUBREL', mid, dup=dup))

    def ev_pingresp(self, a):
        self.deliver(self.conn(a), rc.enc_pingresp())

    def ev_raw(self, a, data):
        self.deliver(self.conn(a), bytes(data))

    # -- time

    def pending_calls(self):
        return [c for c in self.clock.calls if not c.cancelled and not c.called]

    def ties(self):
        calls = self.pending_calls()
        if not calls:
            return []
        t0 = min(c.getTime() for c in calls)
        return [c for c in calls if c.getTime() - t0 <= 1e-9]

    def next_deadline(self):
        calls = self.pending_calls()
        return min(c.getTime() for c in calls) if calls else None

    def ev_tick(self, j=0):
        tied = self.ties()
        call = tied[j]
        self.fire(call)

    def fire(self, call):
        clock = self.clock
        if call.getTime() > clock.rightNow:
            clock.rightNow = call.getTime()
        clock.calls.remove(call)
        call.called = 1
        info = self.classify(call)
        self.tick_info = info
        self.obs.append(('timer', info[0], info[1], info[2], round(clock.rightNow, 6)))
        try:
            call.func(*call.args, **call.kw)
        except Exception as e:           # noqa
            self._exc('timer:' + info[0], info[1], e)

    def ev_wait(self, dt):
        nd = self.next_deadline()
        if nd is not None and self.clock.rightNow + dt >= nd - 1e-9:
            raise RuntimeError('wait(%r) would cross a deadline' % dt)
        self.clock.rightNow += dt

    def ev_probe(self, *inner):
        """A one-step look-ahead: the wrapped event is applied, the scenario does not expand further."""
        getattr(self, 'ev_' + inner[0])(*inner[1:])

    def ev_setid(self, a, v):
        """Place the factory's identifier counter (public attribute) -- stands for the thousands of completed
        requests that would otherwise be needed to get near the 16-bit wrap."""
        self.factory(a).id = v

    def ev_jit(self, v):
        Jitter.value = self.jitter = v

    # -- faults

    def ev_lose(self, a, kind='done'):
        c = self.conn(a)
        exc = error.ConnectionDone('closed by peer') if kind == 'done' else error.ConnectionLost('network')
        self._conn_lost(c, failure.Failure(exc))

    def ev_lossdeliver(self, a):
        c = self.conn(a)
        exc = error.ConnectionDone('closed') if c.pending_loss == 'done' else error.ConnectionAborted('aborted')
        self._conn_lost(c, failure.Failure(exc))

    def ev_rebuild(self, a):
        self._build(a)

    # ------------------------------------------------------------------ timers: ownership

    def classify(self, call):
        """(kind, connection index or None, request index or None) for a DelayedCall."""
        f = call.func
        kind, proto, robj = None, None, None
        if isinstance(f, LoopingCall):
            kind = 'keepalive-loop'
            g = f.f
            proto = getattr(g, '__self__', None)
        elif getattr(f, '_verif_rec', None):
            kind = f._verif_rec
            cells = getattr(f, '__defaults__', None) or ()
            for x in cells:
                if isinstance(x, Conn):
                    return (kind, x.idx, None)
        elif hasattr(f, '__self__') and f.__self__ is not None:
            kind = getattr(f, '__name__', type(f).__name__)
            proto = f.__self__
            for x in call.args:
                if hasattr(x, 'encoded') or hasattr(x, 'deferred'):
                    robj = x
        else:
            kind = getattr(f, '__name__', type(f).__name__)
            for cell in (getattr(f, '__closure__', None) or ()):
                try:
                    v = cell.cell_contents
                except ValueError:
                    continue
                if isinstance(v, _base.MQTTBaseProtocol):
                    proto = v
                elif hasattr(v, 'encoded') or hasattr(v, 'deferred'):
                    robj = v
        ci = None
        if proto is not None:
            for c in self.conns:
                if c.proto is proto:
                    ci = c.idx
        ri = None
        if robj is not None:
            d = getattr(robj, 'deferred', None)
            for r in self.reqs:
                if r.d is not None and r.d is d:
                    ri = r.idx
            if ri is None and d is None and kind == 'connectError' and ci is not None:
                ri = self.conns[ci].connect_req
        if ri is None and kind == 'connectError' and ci is not None:
            ri = self.conns[ci].connect_req
        return (kind, ci, ri)

    def timers(self):
        """[(kind, conn idx, req idx, seconds from now)] for every pending delayed call."""
        now = self.clock.rightNow
        out = []
        for c in self.pending_calls():
            k = self.classify(c)
            out.append((k[0], k[1], k[2], round(c.getTime() - now, 6)))
        return out


# ---------------------------------------------------------------------------------------------- canon

_SKIP_ATTRS = {'log', '_log', 'clock', 'creator'}


def canon_world(w):
    """Generic canonical dump of the reachable object graph (see DESIGN 1.5)."""
    memo = {}
    now = w.clock.rightNow
    conn_of = {id(c.transport): c for c in w.conns}

    def cv(o, depth=0):
        if o is None or isinstance(o, (bool, int, str, bytes)):
            return o
        if isinstance(o, float):
            return round(o, 6)
        if isinstance(o, bytearray):
            return ('ba', bytes(o))
        t = type(o)
        if t in (list, tuple):
            return (t.__name__,) + tuple(cv(x, depth + 1) for x in o)
        i = id(o)
        if i in memo:
            return ('ref', memo[i])
        if t is dict:
            memo[i] = len(memo)
            return ('dict', memo[i]) + tuple((cv(k, depth + 1), cv(v, depth + 1)) for k, v in o.items())
        if isinstance(o, type):
            return ('class', o.__module__, o.__qualname__)
        n = memo[i] = len(memo)
        if isinstance(o, VTransport):
            c = o.conn
            return ('transport', n, c.idx, c.close_req, c.lost, c.pending_loss)
        if isinstance(o, defer.Deferred):
            res = getattr(o, 'result', None)
            if isinstance(res, failure.Failure):
                res = ('F', res.type.__name__)
            else:
                res = cv(res, depth + 1)
            return ('D', n, o.called, o.paused, res, cv(getattr(o, 'msgId', None)))
        if isinstance(o, failure.Failure):
            return ('F', n, o.type.__name__)
        if isinstance(o, BaseException):
            return ('E', n, t.__name__, cv(o.args, depth + 1) if len(repr(o.args)) < 200 else None)
        if isinstance(o, LoopingCall):
            iv = o.interval
            ph = None
            if o.starttime is not None and iv:
                ph = round((now - o.starttime) % iv, 6)
            return ('LC', n, cv(iv), o.running, cv(o.f, depth + 1), ph, cv(o.call, depth + 1))
        if t.__name__ == 'DelayedCall':
            if o.cancelled or o.called:
                return ('DC', n, 'dead', bool(o.cancelled), bool(o.called))
            return ('DC', n, round(o.getTime() - now, 6), cv(o.func, depth + 1), cv(o.args, depth + 1),
                    cv(o.kw, depth + 1))
        if hasattr(o, '_verif_rec'):
            return ('rec', o._verif_rec)
        if hasattr(o, '__self__') and hasattr(o, '__func__'):
            return ('meth', o.__func__.__qualname__, cv(o.__self__, depth + 1))
        if hasattr(o, '__code__'):
            cells = []
            for cell in (o.__closure__ or ()):
                try:
                    cells.append(cv(cell.cell_contents, depth + 1))
                except ValueError:
                    cells.append('<empty>')
            return ('fn', o.__qualname__, tuple(cells))
        if t.__name__ == 'deque':
            return ('deque', n) + tuple(cv(x, depth + 1) for x in o)
        if isinstance(o, IPv4Address):
            return ('addr', o.host, o.port)
        if isinstance(o, (set, frozenset)):
            return ('set', n) + tuple(sorted(repr(cv(x, depth + 1)) for x in o))
        d = getattr(o, '__dict__', None)
        if d is not None:
            items = []
            for k in sorted(d):
                if k in _SKIP_ATTRS:
                    continue
                items.append((k, cv(d[k], depth + 1)))
            return ('obj', n, t.__module__ + '.' + t.__qualname__, tuple(items))
        if isinstance(o, Jitter) or isinstance(o, NullLogger):
            return ('harness', t.__name__)
        return ('opaque', t.__module__ + '.' + t.__qualname__)

    root = []
    seenf = []
    for f in w.factories:
        if not any(f is g for g in seenf):
            seenf.append(f)
            root.append(cv(f))
    for a in range(w.naddr):
        c = w.conn(a)
        root.append(None if c is None else (cv(c.proto), cv(c.transport), c.phase, c.window, c.timeout, c.clean,
                                            c.keepalive, c.level, c.close_req, c.lost, c.pending_loss, c.n_connects,
                                            c.disc_written, c.nwrites > 0))
    calls = sorted(w.pending_calls(), key=lambda c: c.getTime())    # stable: ties keep insertion order
    root.append(tuple(cv(c) for c in calls))
    root.append(w.jitter)
    root.append(w.reentered)
    return tuple(root)


def _last(w, cs):
    """(seconds since the last copy, jitter in force then, seconds between the last two copies) -- what timing
    monitors remember about a packet's transmissions."""
    if not cs:
        return None
    now = w.clock.rightNow
    a = cs[-1]
    gap = round(a[5] - cs[-2][5], 6) if len(cs) > 1 and cs[-2][1] == a[1] else None
    return (round(now - a[5], 6), a[6], gap, cs[-2][6] if len(cs) > 1 else None)


def reqkey(w):
    """Harness-side memory about requests that monitors may rely on; part of every state key."""
    out = []
    for r in w.reqs:
        if r.kind not in ('pub', 'sub', 'unsub', 'connect'):
            continue
        f = r.fires[0][1:] if r.fires else None
        curc = w.cur[r.addr]
        out.append((r.idx, r.kind, r.addr, r.qos, r.ret, r.msgId, f, len(r.fires),
                    len(r.tx), sum(1 for t in r.tx if t[1] == curc), len(r.rel_tx),
                    sum(1 for t in r.rel_tx if t[1] == curc),
                    tuple(sorted(set(a[1] for a in r.acks))), r.conn == curc, w.session_alive(r),
                    _last(w, r.tx), _last(w, r.rel_tx)))
    return tuple(out)
