"""Replay one recorded history without the explorer:  ./check <ID> --replay <file>
Prints the step-by-step observations and the monitor's verdicts; exit 1 iff the recorded signature reproduces."""
import json
import sys

from .scen import unplain


class _Ctx(object):
    def __init__(self, quick):
        self.quick = quick
        self.tier = 'quick' if quick else 'thorough'
        self.seed = 0


def find_scenario(mod, name):
    for quick in (True, False):
        try:
            scns = mod.scenarios(_Ctx(quick))
        except Exception:
            continue
        for s in scns:
            if s.name == name:
                return s
    return None


def main(mod, prop, path):
    rec = json.load(open(path))
    rec['_path'] = path
    if hasattr(mod, 'replay'):
        return mod.replay(rec)
    scn = find_scenario(mod, rec['scenario']['name'])
    if scn is None:
        sys.stderr.write('scenario %r not found in %s\n' % (rec['scenario']['name'], mod.__name__))
        return 2
    from .world import World
    hist = [unplain(e) for e in rec['history']]
    w = World(dict(scn.cfg))
    m = mod.Mon(w, scn)
    m.hist, m.n = tuple(hist), len(hist)
    for ev in scn.init:
        w.apply(ev)
        m.step(w)
        print('init  %r' % (ev,))
    found = []
    for i, ev in enumerate(hist):
        m.i = i
        if i == len(hist) - 1:
            m.before_last(w, ev)
        w.apply(ev)
        print('step %2d  %r' % (i, ev))
        for o in w.new_obs():
            if o[0] == 'w':
                print('           write conn=%d %s %s%s' % (o[1], [p['type'] + (':%s' % p.get('msgId') if p.get('msgId') else '') +
                                                                 ('+DUP' if p.get('dup') else '') for p in o[5]], o[2].hex(),
                                                  ' AFTER-CLOSE-REQ' if o[3] else '') + (' AFTER-LOSS' if o[4] else ''))
            else:
                print('           %r' % (o,))
        for v in (m.step(w) or ()):
            print('   >>> VIOLATION %s: %s' % (v['signature'], v['detail']))
            found.append(v['signature'])
    for v in ((m.at_end(w) or ()) if rec.get('in_closing') else ()):
        print('   >>> AT-END %s: %s' % (v['signature'], v['detail']))
        found.append(v['signature'])
    print('timers: %r' % (w.timers(),))
    if rec['signature'] in found:
        print('VIOLATION property=%s replay=%s' % (prop, path))
        return 1
    print('recorded signature %r did not reproduce on this tree' % rec['signature'])
    return 0
