"""C05 -- publish() Deferred fires exactly once, only on the ack its QoS level requires."""
from ..monitor import Monitor, V, pubs, accepted, rx_packets, fires, CONNECTED
from ..scen import Std
from ..world import canon_world, reqkey

PROP = 'C05'


class Mon(Monitor):
    stateless = True

    def before_last(self, w, ev):
        self.prev = None
        if ev[0] in ('dack',) or (ev[0] in ('ack', 'suback') and (ev[3] if ev[0] == 'ack' else ev[2])[0] == 'stray'):
            self.prev = (canon_world(w), reqkey(w))

    def step(self, w):
        out = []
        ev = w.hist[-1]
        rx = rx_packets(w)
        for (r, how, val, isr) in fires(w, ('pub',)):
            if len(r.fires) > 1:
                out.append(V('twice', 'fired-twice/q%d' % r.qos, 'Deferred of request %d fired %d times' % (r.idx, len(r.fires))))
                continue
            if r.qos == 0:
                if not (how == 'ok' and val is None and r.fires[0][0] == r.call_step):
                    out.append(V('q0', 'q0-not-succeeded/%s' % how, 'QoS 0 publish Deferred: %s %r' % (how, val)))
                continue
            if how == 'ok':
                need = 'PUBACK' if r.qos == 1 else 'PUBCOMP'
                got = any(ci == w.cur[r.addr] and p['type'] == need and p['msgId'] == r.msgId for ci, p in rx)
                if not got:
                    out.append(V('unjustified', 'success-without-%s/q%d/on-%s' % (need, r.qos, ev[0]),
                                 'request %d (qos %d, id %r) succeeded in a step that delivered no %s for it: %r' % (
                                     r.idx, r.qos, r.msgId, need, ev)))
                elif not r.tx or r.tx[0][0] > w.step:
                    out.append(V('unjustified', 'success-before-transmission/q%d' % r.qos,
                                 'request %d succeeded but was never transmitted' % r.idx))
                elif r.qos == 2 and not any(a[1] == 'PUBREC' and a[0] < w.step for a in r.acks):
                    out.append(V('unjustified', 'success-without-PUBREC/q2', 'request %d: PUBCOMP before any PUBREC completed it' % r.idx))
                else:
                    self.see('success-q%d' % r.qos)
                if val != r.msgId:
                    out.append(V('value', 'callback-value-differs', 'callback value %r, Deferred.msgId %r' % (val, r.msgId)))
                if any(t[3] != r.msgId for t in r.tx):
                    out.append(V('value', 'wire-id-differs', 'wire ids %r, Deferred.msgId %r' % ([t[3] for t in r.tx], r.msgId)))
            else:
                if not any(c.lost for c in w.conns):
                    out.append(V('failed', 'failed-without-loss/%s' % val,
                                 'request %d (qos %d) failed with %s although no connection was lost' % (r.idx, r.qos, val)))
        # the completing acknowledgement of a transmitted, unsettled message settles it in that very step
        for ci, p in rx:
            for r in pubs(w):
                if p.get('msgId') is None or r.msgId != p.get('msgId') or r.addr != w.conns[ci].addr or ci != w.cur[r.addr] or not r.qos:
                    continue
                if not (r.ret == 'deferred' and r.call_step < w.step and not any(f[0] < w.step for f in r.fires)):
                    continue
                if not any(t[0] < w.step for t in r.tx):
                    continue
                c = w.conns[ci]
                if c.connack_step is None or c.connack_step >= w.step or c.phase != 'connected' or \
                        (c.close_req is not None and c.close_step < w.step) or (c.lost and c.lost_step < w.step):
                    continue
                done = (r.qos == 1 and p['type'] == 'PUBACK') or \
                       (r.qos == 2 and p['type'] == 'PUBCOMP' and any(a[1] == 'PUBREC' and a[0] < w.step for a in r.acks))
                if done and not r.ok:
                    out.append(V('ignored', 'completing-ack-ignored/%s/q%d' % (p['type'], r.qos),
                                 '%s(%d) delivered for transmitted request %d (qos %d) but its Deferred did not fire' % (
                                     p['type'], p['msgId'], r.idx, r.qos)))
        for r in pubs(w):
            if r.call_step == w.step and r.qos == 0 and accepted(r) and not r.fires:
                out.append(V('q0', 'q0-pending', 'QoS 0 publish returned a pending Deferred'))
        for o in w.new_obs():
            if o[0] == 'exc' and o[3] in ('AlreadyCalledError',):
                out.append(V('twice', 'already-called/%s' % o[1], 'AlreadyCalledError escaped from %s' % o[1]))
        prev, self.prev = getattr(self, 'prev', None), None
        if prev is not None:
            self.see('noop-ack-checked')
            if (canon_world(w), reqkey(w)) != prev:
                out.append(V('noop', 'duplicate-or-unknown-ack-had-effect/%s' % (ev[2] if ev[0] != 'suback' else 'SUBACK'),
                             'state changed on %r' % (ev,)))
        return out

    def at_end(self, w):
        out = []
        for r in pubs(w):
            if r.ret == 'deferred' and len(r.fires) != 1:
                out.append(V('pending', 'not-fired-once-at-end/q%d/%d' % (r.qos, len(r.fires)),
                             'after the broker answered everything request %d has fired %d times' % (r.idx, len(r.fires))))
        return out

    def outcome(self, w):
        return tuple((r.qos, r.fires[0][1] if r.fires else None) for r in pubs(w))


def scenarios(ctx):
    q = ctx.quick
    out = []
    for profile in ('pub', 'pubsub'):
        for win0 in (1, 2, 3):
            if q and (profile, win0) not in (('pub', 1), ('pubsub', 2)):
                continue
            init = CONNECTED + ((('setwin', 0, win0),) if win0 != 1 else ())
            out.append(Std('%s-w%d' % (profile, win0), profile=profile, init=init,
                           budgets=dict(pub=3, ack=3 if q else 4, dack=1, stray=1, setwin=1, tick=1 if q else 2),
                           windows=(1, 2, 3), pub_qos=(0, 1, 2)))
    out.append(Std('pub-q2-deep', profile='pub', init=CONNECTED, pub_qos=(2,),
                   budgets=dict(pub=1 if q else 2, ack=3, dack=1, tick=3 if q else 4)))
    out.append(Std('pub-reenter', profile='pub', init=CONNECTED + (('setwin', 0, 2),), pub_qos=(1, 2), reenter=('pub',),
                   budgets=dict(pub=2, ack=3, tick=1)))
    out.append(Std('pub-wrap', profile='pub', init=CONNECTED + (('setwin', 0, 2),), pub_qos=(1, 2),
                   budgets=dict(pub=3, ack=2, setid=1, tick=1)))
    out.append(Std('pub-reenter-errback', profile='pub', init=(('connect', 0, False, 0, 4), ('connack', 0, 0, False), ('setwin', 0, 2)),
                   connects=[(False, 0, 4)], reconnects=[(True, 0, 4)], reenter=('err:pub>pub',), pub_qos=(1, 2), windows=(2,),
                   budgets=dict(pub=2, ack=2, lose=1, rebuild=1, connect=1, connack=1, tick=1, setwin=1)))
    out.append(Std('pub-callback-returns-deferred', profile='pub', init=CONNECTED + (('setwin', 0, 2),), pub_qos=(1, 2), cb_deferred=True,
                   budgets=dict(pub=3, ack=3, dack=1, tick=1)))
    # several re-entrant calls per history: each acknowledged publish publishes again; each failed one is re-issued
    out.append(Std('pub-reenter-chain', profile='pub', init=CONNECTED + (('setwin', 0, 2),), pub_qos=(1, 2), reenter=('pub',),
                   reenter_max=3, budgets=dict(pub=2, ack=5 if q else 6, tick=1)))
    out.append(Std('pub-reenter-errback-all', profile='pub', init=(('connect', 0, False, 0, 4), ('connack', 0, 0, False), ('setwin', 0, 2)),
                   connects=[(False, 0, 4)], reconnects=[(True, 0, 4)], reenter=('err:pub>pub',), reenter_max=3, pub_qos=(1, 2), windows=(2,),
                   budgets=dict(pub=3, ack=1, lose=1, rebuild=1, connect=1, connack=1, tick=1)))
    out.append(Std('pub-loss', profile='pub', mode='async', init=CONNECTED + (('setwin', 0, 2),), pub_qos=(1, 2),
                   reconnects=[(True, 0, 4)],
                   budgets=dict(pub=2, ack=2, tick=1, lose=1, disconnect=1, rebuild=1, connect=1, connack=1)))
    out.append(Std('pub-connecting', profile='pub', connects=[(True, 0, 4), (False, 0, 3)],
                   budgets=dict(connect=1, connack=1, pub=2 if q else 3, ack=3, dack=1, tick=1 if q else 2)))
    return out


def run(ctx):
    ctx.rule = 'BFS over symbolic event histories; state = canonical object graph + request table + budgets'
    for scn in scenarios(ctx):
        ctx.explore(scn, Mon)
    ctx.assumptions = ['windows 1..3 stand for 1..16', 'loss-free histories (losses are C11/C12)']
