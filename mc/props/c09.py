"""C09 -- QoS 2 sender order: PUBREL only after PUBREC, no PUBLISH again after PUBREL."""
from ..monitor import Monitor, V, pubs, rx_packets, fires, writes, CONNECTED_P
from ..scen import Std

PROP = 'C09'


class Mon(Monitor):
    stateless = True

    def step(self, w):
        out = []
        ev = w.hist[-1]
        for ci, p, o in writes(w):
            c = w.conns[ci]
            if p['type'] == 'PUBREL':
                r = None if p.get('req') is None else w.reqs[p['req']]
                if r is None:
                    out.append(V('order', 'pubrel-for-unknown-id', 'PUBREL(%r) written, no QoS 2 request carries that id' % p['msgId']))
                    continue
                if not w.session_alive(r):
                    out.append(V('order', 'pubrel-after-session-discard/on-%s' % ev[0],
                                 'PUBREL(%d) written on connection %d for request %d of a session that was discarded' % (
                                     p['msgId'], ci, r.idx)))
                    continue
                first_tx = r.tx[0][0] if r.tx else None
                if first_tx is None or not any(a[1] == 'PUBREC' and a[0] >= first_tx for a in r.acks):
                    out.append(V('order', 'pubrel-before-pubrec/on-%s' % ev[0],
                                 'PUBREL(%d) written but no PUBREC for it was received since its PUBLISH' % p['msgId']))
                else:
                    self.see('pubrel-conn-%s' % ('same' if ci == r.conn else 'later'))
                    if len(r.rel_tx) > 1:
                        self.see('pubrel-repeat')
            elif p['type'] == 'PUBLISH' and p.get('req') is not None:
                r = w.reqs[p['req']]
                for e in pubs(w, r.addr):
                    if e is not r and e.qos == 2 and e.msgId == p['msgId'] and e.pending and e.tx and \
                            (e.idx < r.idx):
                        out.append(V('end', 'identifier-reused-before-pubcomp/%s' % ('released' if e.rel_tx else 'sent'),
                                     'PUBLISH of request %d carries identifier %d while the QoS 2 exchange of request %d '
                                     'is not finished' % (r.idx, p['msgId'], e.idx)))
                if r.qos == 2 and r.rel_tx and (r.rel_tx[0][0] < w.step or self._rel_before(w, o, r)):
                    out.append(V('order', 'publish-after-pubrel/on-%s' % ev[0],
                                 'PUBLISH(%r) of request %d written again after its PUBREL went out' % (p['msgId'], r.idx)))
        rx = rx_packets(w)
        for (r, how, val, isr) in fires(w, ('pub',)):
            if r.qos != 2:
                continue
            if how == 'ok':
                if not any(p['type'] == 'PUBCOMP' and p['msgId'] == r.msgId for _, p in rx):
                    out.append(V('end', 'completed-without-pubcomp/on-%s' % ev[0],
                                 'QoS 2 request %d succeeded in a step without PUBCOMP(%r)' % (r.idx, r.msgId)))
                elif not r.rel_tx:
                    out.append(V('end', 'completed-without-pubrel', 'QoS 2 request %d succeeded, PUBREL never written' % r.idx))
                else:
                    self.see('completed')
            else:
                # the exchange may only end without PUBCOMP when the session is discarded
                if w.session_alive(r) and not any(c.clean and c.addr == r.addr and c.idx >= r.conn and c.n_connects
                                                  for c in w.conns):
                    out.append(V('end', 'exchange-failed-in-persistent-session/%s' % val,
                                 'QoS 2 request %d failed with %s although the session is persistent' % (r.idx, val)))
        return out

    def _rel_before(self, w, o, r):
        for x in w.new_obs():
            if x is o:
                return False
            if x[0] == 'w' and any(p['type'] == 'PUBREL' and p.get('req') == r.idx for p in x[5]):
                return True
        return False

    def at_end(self, w):
        out = []
        for r in pubs(w):
            if r.ret == 'deferred' and len(r.fires) != 1:
                out.append(V('end', 'not-fired-once-at-end/%d' % len(r.fires), 'request %d fired %d times' % (r.idx, len(r.fires))))
        return out

    def outcome(self, w):
        return tuple((len(r.tx), len(r.rel_tx), r.fires[0][1] if r.fires else None) for r in pubs(w))


def scenarios(ctx):
    q = ctx.quick
    out = []
    for win in (1, 2):
        init = CONNECTED_P + ((('setwin', 0, win),) if win != 1 else ())
        out.append(Std('pub-q2-w%d' % win, profile='pub', init=init, connects=[(False, 0, 4)],
                       reconnects=[(False, 0, 4)], pub_qos=(2,),
                       budgets=dict(pub=2, ack=4, dack=1, misack=1, tick=2 if q else 3, lose=1 if q else 2, rebuild=2,
                                    connect=2, connack=2, stray=0 if q else 1)))
    out.append(Std('pubsub-q2-v31', profile='pubsub', init=(('connect', 0, False, 0, 3), ('connack', 0, 0, False)),
                   connects=[(False, 0, 3)], reconnects=[(False, 0, 3)], pub_qos=(2,),
                   budgets=dict(pub=1 if q else 2, ack=2 if q else 4, dack=1, tick=3, lose=2, rebuild=2, connect=2,
                                connack=2)))
    out.append(Std('pub-q2-clean-then-persist', profile='pub', init=(('connect', 0, True, 0, 4), ('connack', 0, 0, False)),
                   connects=[(True, 0, 4)], reconnects=[(False, 0, 4), (True, 0, 4)], pub_qos=(2,),
                   budgets=dict(pub=2, ack=2 if q else 3, tick=1, lose=2, rebuild=2, connect=2, connack=2)))
    out.append(Std('pub-q2-reenter-connected', profile='pub', init=CONNECTED_P, connects=[(False, 0, 4)],
                   reconnects=[(False, 0, 4)], pub_qos=(2,), reenter=('ok:connect@1>pub2',), windows=(1, 2),
                   budgets=dict(pub=2, ack=3, tick=1, lose=1, rebuild=1, connect=1, connack=1, setwin=1)))
    out.append(Wrap('pub-q2-wrap', profile='pub', init=CONNECTED_P + (('setwin', 0, 2),), connects=[(False, 0, 4)],
                    reconnects=[(False, 0, 4)], pub_qos=(1, 2),
                    budgets=dict(pub=3, ack=2 if q else 3, setid=1, tick=1, lose=0 if q else 1, rebuild=1, connect=1, connack=1)))
    return out


class Wrap(Std):
    """Adds: place the identifier counter just below the identifier of the oldest unfinished request."""

    def enabled(self, w):
        out = Std.enabled(self, w)
        if self.used(w).get('setid', 0) < self.budgets.get('setid', 0):
            live = [r.msgId for r in w.reqs if r.kind == 'pub' and r.pending and r.msgId]
            if live:
                out.append(('setid', 0, (min(live) - 1) % 65536))
        return out


def run(ctx):
    ctx.rule = 'BFS over symbolic event histories; state = canonical object graph + request table + budgets'
    for scn in scenarios(ctx):
        ctx.explore(scn, Mon)
    ctx.assumptions = ['persistent sessions only (clean sessions: C11)']
