"""C15 -- keepalive: PINGREQ every k seconds, abort when unanswered, silent when k=0."""
from ..monitor import Monitor, V
from ..scen import Std
from ..world import World

PROP = 'C15'
EPS = 1e-6


def ka_events(w, c):
    """[(time, what)] for connection c: 'connack', 'ping' (PINGREQ written), 'resp' (PINGRESP delivered),
    'abort'/'lose' (close requested by the client), 'lost'."""
    out = []
    for o, t in zip(w.obs, w.obs.t):
        if o[0] == 'w' and o[1] == c.idx:
            for p in o[5]:
                if p['type'] == 'PINGREQ':
                    out.append((t, 'ping', o))
        elif o[0] == 'rx' and o[1] == c.idx:
            if o[2][:1] == b'\xd0':
                out.append((t, 'resp', o))
            elif o[2][:1] == b'\x20' and c.connack_time is not None and abs(t - c.connack_time) < EPS and \
                    not any(x[1] == 'connack' for x in out):
                out.append((t, 'connack', o))
        elif o[0] == 'close' and o[1] == c.idx:
            out.append((t, o[2], o))
        elif o[0] == 'lost' and o[1] == c.idx:
            out.append((t, 'lost', o))
    return out


class Mon(Monitor):
    stateless = True

    def step(self, w):
        out = []
        ev = w.hist[-1]
        now = w.clock.rightNow
        new = w.new_obs()
        for o in new:
            if o[0] == 'exc':
                out.append(V('exc', 'exception/%s/%s' % (o[1], o[3]), '%s: %s' % (o[3], o[4])))
        for c in w.conns:
            if not c.n_connects:
                continue
            k = c.keepalive
            evs = ka_events(w, c)
            pings = [e for e in evs if e[1] == 'ping']
            new_pings = [e for e in pings if any(e[2] is o for o in new)]
            if k == 0:
                if new_pings:
                    out.append(V('k0', 'pingreq-with-keepalive-0/on-%s' % ev[0], 'connection %d has keepalive 0 but wrote PINGREQ' % c.idx))
                continue
            for e in new_pings:
                if c.lost and c.lost_step < w.step:
                    out.append(V('after', 'pingreq-after-loss', 'connection %d wrote PINGREQ after its loss was reported' % c.idx))
                elif c.connack_time is None or c.phase != 'connected':
                    out.append(V('before', 'pingreq-before-connack', 'connection %d wrote PINGREQ before CONNACK' % c.idx))
                else:
                    self.see('ping')
            # client-side aborts caused by keepalive must be justified
            for e in evs:
                if e[1] == 'abort' and any(e[2] is o for o in new) and ev[0] == 'tick' and w.tick_info and \
                        w.tick_info[0] not in ('connectError',) and w.tick_info[1] == c.idx:
                    just = False
                    for p in pings:
                        if now - p[0] >= k - EPS and not any(x[1] == 'resp' and x[0] >= p[0] - EPS and x[2] is not p[2] and
                                                             self._after(w, x[2], p[2]) for x in evs):
                            just = True
                    if not just:
                        out.append(V('abort', 'keepalive-abort-unjustified', 'connection %d aborted by a timer although every PINGREQ '
                                                                             'older than %ss was answered' % (c.idx, k)))
                    else:
                        self.see('abort-justified')
            up = c.phase == 'connected' and not c.lost and c.close_req is None
            if up:
                # (a) PINGREQ at least every k seconds since CONNACK
                last = max([c.connack_time] + [p[0] for p in pings])
                if now - last > k + EPS:
                    out.append(V('gap', 'no-pingreq-for-more-than-k/on-%s' % ev[0],
                                 'connection %d: %.3fs since the last PINGREQ/CONNACK, keepalive %s' % (c.idx, now - last, k)))
                # (b) unanswered for more than k => must have aborted
                for p in pings:
                    if now - p[0] > k + EPS and not any(x[1] == 'resp' and self._after(w, x[2], p[2]) for x in evs):
                        out.append(V('abort', 'unanswered-pingreq-not-aborted', 'connection %d: PINGREQ at %.3f unanswered for %.3fs, '
                                                                                'still open' % (c.idx, p[0], now - p[0])))
                        break
            if c.lost:
                own = [t for t in w.timers() if t[1] == c.idx and t[0] in ('keepalive-loop', 'doPingError', 'ping')]
                if own:
                    out.append(V('after', 'keepalive-timer-after-loss/%s' % own[0][0], 'lost connection %d still owns %r' % (c.idx, own)))
        return out

    def _after(self, w, a, b):
        """Observation a was made after observation b."""
        ia = ib = None
        for i, o in enumerate(w.obs):
            if o is a:
                ia = i
            if o is b:
                ib = i
        return ia is not None and ib is not None and ia > ib

    def at_end(self, w):
        return []

    def outcome(self, w):
        return tuple((c.keepalive, c.lost, c.close_req, sum(1 for e in ka_events(w, c) if e[1] == 'ping')) for c in w.conns)


class Scn(Std):
    """Keepalive scenario: waits are offered in fractions of the current keepalive."""

    def enabled(self, w):
        out = [e for e in Std.enabled(self, w) if e[0] != 'wait']
        u = self.used(w)
        if u.get('wait', 0) < self.budgets.get('wait', 0):
            nd = w.next_deadline()
            for dt in self.waits:
                if nd is not None and w.clock.rightNow + dt < nd - 1e-6:
                    out.append(('wait', dt))
        return out


def scenarios(ctx):
    q = ctx.quick
    out = []
    for k in (2, 3):
        for mode in ('sync', 'async'):
            if q and (k, mode) not in ((2, 'async'), (3, 'sync')):
                continue
            out.append(Scn('k%d-%s' % (k, mode), profile='pubsub', mode=mode,
                           init=(('connect', 0, True, k, 4), ('connack', 0, 0, False)),
                           reconnects=[(True, k, 4), (True, 0, 4)], pub_qos=(1,), waits=(k / 2.0,),
                           closing=False,
                           budgets=dict(tick=10 if q else 13, wait=2, pingresp=4 if q else 5, lose=1,
                                        rebuild=1, connect=1, connack=1)))
    out.append(Scn('k2-traffic', profile='pub', mode='async',
                   init=(('connect', 0, True, 2, 4), ('connack', 0, 0, False)), pub_qos=(0, 1), waits=(1.0,), closing=False,
                   budgets=dict(tick=6 if q else 8, wait=3, pingresp=2 if q else 3, pub=2, ack=1, disconnect=1, appping=1)))
    KA2 = (('connect', 0, True, 2, 4), ('connack', 0, 0, False), ('connect', 1, True, 2, 4), ('connack', 1, 0, False))
    out.append(Scn('two-brokers', profile='pub', mode='async', naddr=2, init=KA2, closing=False,
                   reconnects=[(True, 2, 4)],
                   budgets=dict(tick=5 if q else 8),
                   addr_budgets=[dict(tick=5 if q else 8, pingresp=1, lose=1), dict(tick=5 if q else 8, pingresp=2 if q else 3)]))
    out.append(Scn('k2-disconnect-in-callback', profile='pubsub', mode='async', connects=[(True, 2, 4)], reconnects=[(True, 2, 4)],
                   reenter=('onMqttConnectionMade>disconnect',), closing=False,
                   budgets=dict(connect=1, connack=1, tick=5, pingresp=1, lose=1)))
    out.append(Scn('k0', profile='pubsub', mode='async', init=(('connect', 0, True, 0, 4), ('connack', 0, 0, False)),
                   reconnects=[(True, 2, 4)], pub_qos=(1,), closing=False,
                   budgets=dict(tick=6, pingresp=2, pub=1, ack=1, lose=1, rebuild=1, connect=1, connack=1)))
    return out


def sweep(ctx):
    """Every keepalive value through one fixed script: 3 answered periods, then silence until the abort."""
    ks = [1, 2, 3, 5, 10, 59, 60, 255, 256, 1000, 32767, 32768, 65534, 65535] if ctx.quick else range(1, 65536)
    scn = Std('sweep', profile='pub')
    n = 0
    for k in ks:
        w = World(dict(profile='pub', mode='async'))
        m = Mon(w, scn)
        hist = [('connect', 0, True, k, 4), ('connack', 0, 0, False)]
        for _ in range(3):
            hist += [('wait', k / 2.0), ('pingresp', 0), ('tick', 0)]
        hist += [('tick', 0), ('tick', 0), ('lossdeliver', 0)]
        v = []
        for ev in hist:
            if ev[0] == 'tick' and not w.ties():
                break
            if ev[0] == 'wait' and w.next_deadline() is not None and w.clock.rightNow + ev[1] >= w.next_deadline() - 1e-9:
                v.append(V('gap', 'sweep/timer-due-before-half-keepalive',
                           'keepalive %d: a timer is due %.3fs after a PINGREQ/CONNACK, before k/2' % (
                               k, w.next_deadline() - w.clock.rightNow)))
                break
            if ev[0] == 'lossdeliver' and w.conn(0).pending_loss is None:
                v.append(V('abort', 'sweep/not-aborted-after-silence', 'keepalive %d: no abort after an unanswered PINGREQ' % k))
                break
            w.apply(ev)
            v += m.step(w) or []
        n += 1
        for x in v:
            x = dict(x)
            if not x['signature'].startswith('sweep/'):
                x['signature'] = 'sweep/' + x['signature']
            x['history'] = [list(e) for e in w.hist]
            x['scenario'] = {'name': 'sweep', 'k': k}
            ctx.violation(x)
    ctx.executions += n
    ctx.extra['sweep'] = {'keepalive_values': n}
    ctx.add_enum(n, n, [{'keepalive': 65535, 'script': '3 answered periods, then silence until abort'}])


def run(ctx):
    ctx.rule = 'BFS over tick/wait/PINGRESP/traffic/loss histories several keepalive periods deep; sweep of keepalive values'
    for scn in scenarios(ctx):
        ctx.explore(scn, Mon, closing=False)
    sweep(ctx)
    ctx.assumptions = ['timers due at the same virtual instant may run in any order (all orders explored)']
