"""C10 -- send window bounds in-flight publishes; queue is FIFO and strands no message."""
from ..monitor import Monitor, V, pubs, accepted
from ..scen import Std

PROP = 'C10'


class Mon(Monitor):
    stateless = True

    def step(self, w):
        out = []
        for o in w.new_obs():
            if o[0] == 'w':
                ci = o[1]
                c = w.conns[ci]
                for p in o[5]:
                    if p['type'] != 'PUBLISH' or p.get('req') is None:
                        continue
                    r = w.reqs[p['req']]
                    ntx = sum(1 for t in r.tx if t[0] < w.step) + self._txs_in_step_before(w, o, r)
                    if ntx == 0:
                        self.see('first-tx-q%d' % r.qos)
                        # (ii) FIFO: nobody accepted earlier on this address may still be waiting for its first copy
                        for e in pubs(w, r.addr):
                            if e.idx >= r.idx:
                                break
                            e_sent = sum(1 for t in e.tx if t[0] < w.step) + self._txs_in_step_before(w, o, e)
                            e_pending = e.pending or (e.fires and e.fires[0][0] == w.step)
                            if accepted(e) and not e_sent and w.session_alive(e) and (e.qos == 0 or e_pending):
                                out.append(V('fifo', 'fifo/overtaken/q%d-before-q%d' % (r.qos, e.qos),
                                             'request %d (qos %d) first sent while earlier request %d (qos %d) '
                                             'is still unsent' % (r.idx, r.qos, e.idx, e.qos)))
                                break
                        # (i) window
                        if r.qos:
                            infl = [e for e in pubs(w, r.addr) if e.qos and e.tx and e.pending and
                                    not (e.acked('PUBACK') or e.acked('PUBREC'))]
                            if len(infl) > c.window:
                                out.append(V('window', 'window/exceeded/%d>%d' % (len(infl), c.window),
                                             '%d publishes await their first ack, window is %d' % (len(infl), c.window)))
                            if len(infl) == c.window:
                                self.see('window-full')
                    else:
                        if not p['dup']:
                            out.append(V('dupfirst', 'first-tx-twice/q%d' % r.qos,
                                         'request %d appears again on the wire without DUP' % r.idx))
            elif o[0] == 'ret' and o[1] >= 0:
                r = w.reqs[o[1]]
                if r.kind == 'pub' and r.call_phase in ('connecting', 'connected') and w.profile != 'sub' \
                        and w.conns[r.conn].close_req is None:
                    if r.ret != 'deferred':
                        out.append(V('refused', 'publish-refused/%s' % r.exc, 'publish() raised %s' % r.exc))
            elif o[0] == 'fire' and o[1] >= 0:
                r = w.reqs[o[1]]
                if r.kind == 'pub' and o[2] == 'err' and r.fires[0][0] == r.call_step and \
                        r.call_phase in ('connecting', 'connected') and w.profile != 'sub' and \
                        w.conns[r.conn].close_req is None and len(r.fires) == 1:
                    out.append(V('refused', 'publish-refused/%s' % o[3],
                                 'publish() in phase %s returned a Deferred failed with %s' % (r.call_phase, o[3])))
        # (iv) nothing stranded
        for a in range(w.naddr):
            c = w.conn(a)
            if c is None or w.phase(c) != 'connected' or not c.open:
                continue
            ps = pubs(w, a)
            outstanding = [e for e in ps if e.qos and e.tx and e.pending]
            if outstanding:
                continue
            unsent = [e for e in ps if accepted(e) and not e.tx and w.session_alive(e) and (e.qos == 0 or e.pending)]
            if unsent:
                e = unsent[0]
                out.append(V('stranded', 'stranded/q%d' % e.qos,
                             'connected, no QoS>0 exchange outstanding, but accepted request %d (qos %d) was never '
                             'sent' % (e.idx, e.qos)))
        return out

    def _txs_in_step_before(self, w, o, r):
        n = 0
        for x in w.new_obs():
            if x is o:
                break
            if x[0] == 'w':
                for p in x[5]:
                    if p['type'] == 'PUBLISH' and p.get('req') == r.idx:
                        n += 1
        return n

    def outcome(self, w):
        return tuple((r.qos, len(r.tx) > 0, r.pending) for r in pubs(w))


CONNECTED = (('connect', 0, True, 0, 4), ('connack', 0, 0, False))
CONNECTED_P = (('connect', 0, False, 0, 4), ('connack', 0, 0, False))


def scenarios(ctx):
    q = ctx.quick
    out = []
    for profile in ('pub', 'pubsub'):
        for win0 in (1, 2, 3):
            if q and (profile, win0) not in (('pub', 1), ('pubsub', 2), ('pub', 3)):
                continue
            init = CONNECTED + ((('setwin', 0, win0),) if win0 != 1 else ())
            out.append(Std('%s-w%d' % (profile, win0), profile=profile, mode='sync', init=init,
                           budgets=dict(pub=3 if q else 5, ack=3 if q else 4, dack=1, stray=1, setwin=1 if q else 2,
                                        tick=1),
                           windows=(1, 2, 3), early_pubcomp=True))
    # publishing while CONNECTING, then the handshake completes
    for profile in (('pub',) if q else ('pub', 'pubsub')):
        out.append(Std('%s-connecting' % profile, profile=profile, mode='sync',
                       connects=[(True, 0, 4), (False, 0, 4)],
                       budgets=dict(connect=1, connack=1, pub=3 if q else 4, ack=3, setwin=1, tick=1),
                       windows=(1, 2)))
    # publish() called again from inside the success callback of an earlier publish (re-entrant use of the API)
    out.append(Std('pub-reenter', profile='pub', mode='sync', init=CONNECTED, windows=(1, 2), pub_qos=(0, 1, 2), reenter=('pub',),
                   budgets=dict(pub=3, ack=3, setwin=1)))
    out.append(Std('pub-reenter-q0', profile='pub', mode='sync', init=CONNECTED, windows=(1, 2), pub_qos=(0, 1), reenter=('ok:pub0>pub',),
                   budgets=dict(pub=3, ack=2)))
    # publish() called from the callback of connect() of a resumed session with messages carried over
    out.append(Std('pub-reenter-connected', profile='pub', mode='sync', init=CONNECTED_P, connects=[(False, 0, 4)],
                   reconnects=[(False, 0, 4)], windows=(1, 2), pub_qos=(0, 1, 2), reenter=('ok:connect@1>pub1',),
                   budgets=dict(pub=3, ack=2, lose=1, rebuild=1, connect=1, connack=1, setwin=1)))
    # disconnect() with messages of a persistent session still held back, then the session is resumed
    for mode in ('sync', 'async'):
        out.append(Std('pub-persist-disconnect-%s' % mode, profile='pub', mode=mode, init=CONNECTED_P, connects=[(False, 0, 4)],
                       reconnects=[(False, 0, 4)], pub_qos=(0, 1), windows=(1, 2),
                       budgets=dict(pub=3, ack=1 if q else 2, disconnect=1, lose=1, rebuild=1, connect=1, connack=1)))
    # the window is changed from inside the success callback of a publish
    for n in (1, 3):
        out.append(Std('pub-reenter-setwin%d' % n, profile='pub', mode='sync', init=CONNECTED + (('setwin', 0, 2),), pub_qos=(0, 1, 2),
                       reenter=('ok:pub>setwin%d' % n,), budgets=dict(pub=4, ack=2 if q else 3)))
    # the application's success callbacks return Deferreds that have not fired yet
    out.append(Std('pub-callback-returns-deferred', profile='pub', mode='sync', init=CONNECTED, windows=(1, 2), pub_qos=(0, 1, 2),
                   cb_deferred=True, budgets=dict(pub=3, ack=3, setwin=1, tick=1)))
    out.append(Std('pub-wrap', profile='pub', mode='sync', init=CONNECTED + (('setwin', 0, 2),), pub_qos=(0, 1, 2),
                   budgets=dict(pub=4, ack=1, setid=1)))
    out.append(Std('pubsub-persist-w3', profile='pubsub', mode='sync', init=CONNECTED_P + (('setwin', 0, 3),),
                   connects=[(False, 0, 4)], reconnects=[(False, 0, 4)],
                   budgets=dict(pub=4 if q else 5, ack=2, lose=1, rebuild=1, connect=1, connack=1, setwin=0 if q else 1), windows=(1, 2)))
    # resumed sessions that inherit in-flight packets
    for mode in ('sync',):      # transport mode is irrelevant without client-side close requests
        out.append(Std('pubsub-persist-%s' % mode, profile='pubsub', mode=mode, init=CONNECTED_P,
                       connects=[(False, 0, 4)], reconnects=[(False, 0, 4), (True, 0, 4)],
                       budgets=dict(pub=3, ack=2 if q else 4, setwin=1 if not q else 0, lose=1, rebuild=1, connect=1,
                                    connack=1, tick=1 if q else 2),
                       windows=(1, 2)))
    return out


def run(ctx):
    ctx.rule = ('BFS over symbolic event histories of the real client; a state is distinct by the canonical dump of '
                'the whole object graph + request table + remaining budgets')
    for scn in scenarios(ctx):
        ctx.explore(scn, Mon, closing=False)
    ctx.assumptions = ['window sizes 1..3 stand for 1..16 (the code only compares the window with len())',
                       'virtual reactor/transport own all nondeterminism (DESIGN 1.1)']
