"""C04 -- connect() handshake outcome and connection-loss notification, exactly once each."""
import time

from ..explorer import V as _V
from ..monitor import Monitor, V, rx_packets, fires, writes, is_idle
from ..scen import Std
from ..world import World

PROP = 'C04'


def state_name(c):
    return type(c.proto.state).__name__


class Mon(Monitor):
    stateless = True

    def step(self, w):
        out = []
        ev = w.hist[-1]
        wr = writes(w)
        rx = rx_packets(w)
        # connect() on an idle protocol
        for r in w.reqs:
            if r.kind != 'connect' or r.call_step != w.step:
                continue
            c = w.conns[r.conn]
            n = sum(1 for ci, p, o in wr if ci == c.idx and p['type'] == 'CONNECT')
            if r.args.get('ka', 0) > 65535:
                continue        # invalid argument: refusing it is right (C20)
            if r.call_phase == 'new' and c.close_req is None or (c.close_req is not None and c.close_step == w.step and r.call_phase == 'new'):
                if r.ret != 'deferred' or (r.failed and r.fires[0][0] == w.step):
                    out.append(V('connect', 'valid-connect-refused/%s' % (r.exc or (r.fires and r.fires[0][2])), 'connect() on a fresh protocol refused'))
                elif n != 1:
                    out.append(V('connect', 'connect-wrote-%d-CONNECT' % n, 'connect() wrote %d CONNECT packets' % n))
                else:
                    self.see('connect')
        # firings of connect Deferreds
        for (r, how, val, isr) in fires(w, ('connect',)):
            c = w.conns[r.conn]
            if r.fires[0][0] == r.call_step and how == 'err' and (r.call_phase != 'new' or r.args.get('ka', 0) > 65535):
                continue     # refused connect() on a protocol that is not fresh (C14) or with an invalid argument (C20)
            if len(r.fires) > 1:
                out.append(V('fire', 'connect-deferred-fired-twice/%s-then-%s' % (r.fires[0][1], r.fires[-1][1]),
                             'connect Deferred fired %d times: %r' % (len(r.fires), r.fires)))
                continue
            acks = [p for ci, p in rx if ci == c.idx and p['type'] == 'CONNACK']
            first_ack = c.connack_step == w.step
            if how == 'ok':
                if not (first_ack and acks and acks[0]['rc'] == 0):
                    out.append(V('fire', 'success-without-connack0/on-%s' % ev[0], 'connect Deferred succeeded on %r' % (ev,)))
                elif val != acks[0]['sp']:
                    out.append(V('fire', 'session-present-value-differs', 'CONNACK sp=%r, callback value %r' % (acks[0]['sp'], val)))
                else:
                    self.see('accepted-sp%d' % acks[0]['sp'])
            else:
                if first_ack and acks:
                    rcode = acks[0]['rc']
                    if rcode == 0:
                        out.append(V('fire', 'failed-on-connack0/%s' % val, 'CONNACK(0) but the Deferred failed with %s' % val))
                    elif val != 'MQTTStateError':
                        out.append(V('fire', 'refusal-failed-with/%s' % val, 'CONNACK(%d): Deferred failed with %s' % (rcode, val)))
                    else:
                        self.see('refused')
                        if not is_idle(c) and not c.lost:
                            out.append(V('idle', 'not-idle-after-refusal/%s' % state_name(c), 'state %s after CONNACK(%d)' % (state_name(c), rcode)))
                elif ev[0] == 'tick' and w.tick_info and w.tick_info[0] == 'connectError':
                    due = (c.keepalive or 10)
                    t_connect = self._connect_time(w, c)
                    if val != 'MQTTTimeoutError':
                        out.append(V('fire', 'timeout-failed-with/%s' % val, ''))
                    elif abs((w.clock.rightNow - t_connect) - due) > 1e-6:
                        out.append(V('fire', 'timeout-at-wrong-time', 'CONNACK timeout after %.3fs, expected %s' % (w.clock.rightNow - t_connect, due)))
                    elif not c.lost and not any(o[0] == 'close' and o[1] == c.idx for o in w.new_obs()):
                        out.append(V('fire', 'timeout-without-close', 'CONNACK timeout did not ask the transport to close'))
                    else:
                        self.see('timeout' + ('-after-loss' if c.lost and c.lost_step < w.step else ''))
                elif any(o[0] == 'lost' and o[1] == c.idx for o in w.new_obs()):
                    self.see('failed-at-loss')
                else:
                    out.append(V('fire', 'connect-failed-without-cause/%s/on-%s' % (val, ev[0]), 'connect Deferred failed with %s on %r' % (val, ev)))
        # the first CONNACK of a handshake must settle it in that very step
        for a in range(w.naddr):
            for c in w.conns:
                if c.addr == a and c.connack_step == w.step and c.connect_req is not None:
                    r = w.reqs[c.connect_req]
                    if not r.fires:
                        out.append(V('fire', 'connack-left-deferred-pending/rc-%s' % _rcclass([p for ci, p in rx if p['type'] == 'CONNACK'][0]['rc']),
                                     'CONNACK delivered while connecting, connect Deferred still pending'))
        # connection loss: idle afterwards; onDisconnection exactly once, with the reason, after the clean-up
        for o in w.new_obs():
            if o[0] == 'lostdone':
                c = w.conns[o[1]]
                if not is_idle(c):
                    out.append(V('idle', 'not-idle-after-loss/%s/on-%s' % (state_name(c), ev[0]), 'state %s after connectionLost' % state_name(c)))
                else:
                    self.see('idle-after-loss')
            if o[0] == 'exc' and (o[1] in ('connectionLost', 'dataReceived') or o[1] == 'timer:connectError'):
                out.append(V('exc', 'exception/%s/%s' % (o[1], o[3]), '%s: %s' % (o[3], o[4])))
            if o[0] == 'cb' and o[1] == 'onDisconnection':
                c = w.conns[o[2]]
                n = sum(1 for x in w.obs if x[0] == 'cb' and x[1] == 'onDisconnection' and x[2] == c.idx)
                if not c.lost:
                    out.append(V('notify', 'onDisconnection-without-loss', ''))
                elif n > 1:
                    out.append(V('notify', 'onDisconnection-twice', 'called %d times for one loss' % n))
                elif not o[3]:
                    out.append(V('notify', 'onDisconnection-wrong-reason', 'not the reason passed to connectionLost'))
                else:
                    self.see('notified')
                    if c.n_connects and not c.clean:
                        for r in w.reqs:
                            if r.addr == c.addr and r.kind == 'pub' and r.qos and r.failed and r.fires[0][0] >= c.lost_step and \
                                    r.call_step < c.lost_step and w.session_alive(r) and r.fires[0][0] <= w.step:
                                out.append(V('notify', 'persistent-request-failed-by-loss/%s' % r.fires[0][2],
                                             'request %d of a persistent session failed with %s when its connection was lost' % (
                                                 r.idx, r.fires[0][2])))
                    if c.clean and c.n_connects:
                        for r in w.reqs:
                            if r.addr == c.addr and r.conn == c.idx and r.kind in ('pub', 'sub', 'unsub') and r.pending and \
                                    (r.kind != 'pub' or r.qos):
                                out.append(V('notify', 'notified-before-cleanup/%s' % r.kind, 'request %d still pending when onDisconnection ran' % r.idx))
        return out

    def _connect_time(self, w, c):
        return c.connect_time

    def at_end(self, w):
        out = []
        for r in w.reqs:
            if r.kind == 'connect' and r.ret == 'deferred' and not r.fires:
                out.append(V('fire', 'connect-deferred-pending-at-end', 'connect Deferred of connection %d never fired' % r.conn))
        for c in w.conns:
            if c.lost and w.cfg.get('ondisc', True):
                n = sum(1 for x in w.obs if x[0] == 'cb' and x[1] == 'onDisconnection' and x[2] == c.idx)
                if n != 1:
                    out.append(V('notify', 'onDisconnection-%d-times-at-end' % n, 'connection %d lost, onDisconnection called %d times' % (c.idx, n)))
        return out

    def outcome(self, w):
        return tuple((r.fires[0][1:3] if r.fires else None) for r in w.reqs if r.kind == 'connect')


def sweep(ctx):
    """All 256 return codes x session present x profiles x keepalive x versions x transport modes."""
    n = 0
    t0 = time.time()
    outcomes = set()
    for profile in ('sub', 'pub', 'pubsub'):
        for mode in ('sync', 'async'):
            for ka in (0, 3):
                for ver in (3, 4):
                    for sp in (False, True):
                        for rcode in range(256):
                            scn = SWEEP
                            w = World(dict(profile=profile, mode=mode))
                            m = Mon(w, scn)
                            hist = [('connect', 0, True, ka, ver), ('connack', 0, rcode, sp)]
                            v = []
                            for ev in hist:
                                w.apply(ev)
                                v += m.step(w) or []
                            if not v:
                                scn.closing(w, lambda e: v.extend(m.step(w) or []))
                                v += m.at_end(w) or []
                            n += 1
                            r = w.reqs[0]
                            outcomes.add((r.fires[0][1:3] if r.fires else None, rcode == 0))
                            for x in v:
                                x = dict(x)
                                x['signature'] = 'sweep/' + x['signature']
                                x['history'] = [list(e) for e in w.hist]
                                x['scenario'] = {'name': 'sweep', 'cfg': dict(profile=profile, mode=mode)}
                                ctx.violation(x)
    ctx.executions += n
    ctx.extra['sweep'] = {'executions': n, 'distinct_outcomes': len(outcomes), 'wall_s': round(time.time() - t0, 1)}
    ctx.add_enum(n, len(outcomes), [{'sweep': ['connect', 'connack rc=255 sp=1']}])


SWEEP = Std('sweep', profile='pubsub', drain_max_ticks=10)


def scenarios(ctx):
    q = ctx.quick
    out = []
    for profile, mode in (('pubsub', 'sync'), ('pub', 'async'), ('sub', 'async'), ('pubsub', 'async'), ('sub', 'sync'), ('pub', 'sync')):
        if q and (profile, mode) in (('sub', 'sync'), ('pub', 'sync')):
            continue
        out.append(Std('%s-%s' % (profile, mode), profile=profile, mode=mode,
                       connects=[(True, 0, 4), (False, 3, 3)], reconnects=[(True, 3, 4)], badconnacks=(5, 6),
                       pub_qos=(1,), lose_kinds=('done', 'lost'), drain_max_ticks=12, drain_horizon=40.0,
                       budgets=dict(connect=2 if q else 3, connack=2 if q else 3, badconnack=1, dupconnack=1, tick=2 if q else 4,
                                    lose=1 if q else 2, rebuild=1 if q else 2, pub=1, reconn2=1, disconnect=1, badconnect=1)))
    out.append(Std('reenter-connected-disconnect', profile='pubsub', mode='async', connects=[(True, 2, 4), (False, 0, 3)],
                   reconnects=[(True, 2, 4)], reenter=('ok:connect>disconnect',), lose_kinds=('done',), drain_max_ticks=12,
                   drain_horizon=40.0, budgets=dict(connect=2, connack=2, tick=3, lose=1, rebuild=1)))
    # the transport is lost before connect() was ever called on the protocol
    out.append(Std('lost-before-connect', profile='pubsub', mode='async', connects=[(True, 0, 4), (False, 3, 3)],
                   reconnects=[(False, 3, 4)], lose_new=True, lose_kinds=('done', 'lost'), drain_max_ticks=12, drain_horizon=40.0,
                   pub_qos=(1,), budgets=dict(connect=2, connack=2, tick=2, lose=2, rebuild=2, pub=1, reconn2=1)))
    # connect() called again from the errback of a connect() the broker refused or that timed out
    for mode in ('sync', 'async'):
        out.append(Std('reenter-refused-connect-%s' % mode, profile='pubsub', mode=mode, connects=[(True, 2, 4), (False, 0, 3)],
                       reconnects=[(True, 2, 4)], reenter=('err:connect>connect',), badconnacks=(5,), lose_kinds=('done',),
                       drain_max_ticks=12, drain_horizon=40.0,
                       budgets=dict(connect=2, connack=2, badconnack=1, tick=3, lose=1, rebuild=1, pub=1), pub_qos=(1,)))
    out.append(Std('two-addresses', profile='pubsub', mode='async', naddr=2, connects=[(True, 0, 4), (False, 2, 4)],
                   reconnects=[(True, 0, 4)], pub_qos=(1,), lose_kinds=('done',), drain_max_ticks=12, drain_horizon=40.0,
                   budgets=dict(tick=2),
                   addr_budgets=[dict(connect=1, connack=1, lose=1, tick=2, pub=1), dict(connect=1, connack=1, lose=1, tick=2, rebuild=1)]))
    return out


def replay(rec):
    import sys
    from .. import replay as rp
    mod = sys.modules[__name__]
    if rec['scenario']['name'] == 'sweep':
        from ..scen import unplain
        w = World(dict(rec['scenario']['cfg']))
        m = Mon(w, SWEEP)
        found = []
        for ev in [unplain(e) for e in rec['history']]:
            w.apply(ev)
            print(ev, w.new_obs())
            for v in m.step(w) or []:
                print('  >>>', v)
                found.append('sweep/' + v['signature'])
        for v in m.at_end(w) or []:
            print('  >>> at end', v)
            found.append('sweep/' + v['signature'])
        if rec['signature'] in found:
            print('VIOLATION property=%s replay=%s' % (PROP, rec['_path']))
            return 1
        return 0
    delattr(mod, 'replay')
    try:
        return rp.main(mod, PROP, rec['_path'])
    finally:
        setattr(mod, 'replay', replay)


def run(ctx):
    ctx.rule = ('sweep: every (profile, mode, keepalive, version, sp, return code) as one execution; BFS over '
                'connect/CONNACK/duplicate CONNACK/timeout/loss/rebuild orderings')
    sweep(ctx)
    for scn in scenarios(ctx):
        ctx.explore(scn, Mon)
    ctx.assumptions = ['a handshake cut by a connection loss may fail at the loss or at the CONNACK deadline']


def _rcclass(rcode):
    return '0' if rcode == 0 else ('1-5' if rcode <= 5 else 'reserved')
