"""C06 -- inbound PUBLISH: faithful delivery, QoS 2 exactly once, every packet answered."""
from ..monitor import Monitor, V, rx_packets, writes
from ..scen import Std
from ..world import PAYLOADS, IN_TOPICS

PROP = 'C06'


def reference_store(w, upto):
    """Reference receiver state after the first `upto` observations: addr -> {id: [fields of stored copies]}."""
    stored = {a: {} for a in range(w.naddr)}
    from .. import refcodec as rc
    for o in w.obs[:upto]:
        if o[0] == 'rx':
            c = w.conns[o[1]]
            if not c.connack_step or c.phase != 'connected':
                pass
            try:
                pk, _ = rc.split_stream(o[2])
            except rc.RefError:
                continue
            for raw in pk:
                try:
                    p = rc.decode(raw, strict=False)
                except rc.RefError:
                    continue
                if p['type'] == 'PUBLISH' and p['qos'] == 2 and _connected_at(w, c, o):
                    stored[c.addr].setdefault(p['msgId'], []).append(fields(p))
                elif p['type'] == 'PUBREL' and _connected_at(w, c, o):
                    stored[c.addr].pop(p['msgId'], None)
        elif o[0] == 'lost':
            c = w.conns[o[1]]
            if c.n_connects and c.clean:
                stored[c.addr].clear()
        elif o[0] == 'call' and o[2] == 'connect' and o[1] >= 0:
            # a clean CONNECT discards the stored session as well
            r = w.reqs[o[1]]
            if r.args.get('clean') and r.ret == 'deferred' and not (r.failed and r.fires[0][0] == r.call_step):
                stored[r.addr].clear()
    return stored


def _connected_at(w, c, o):
    """Was connection c in the CONNECTED phase when observation o was made?"""
    if c.connack_step is None or c.phase != 'connected':
        return False
    i = w.obs.index(o) if not isinstance(o, int) else o
    # position of the CONNACK delivery of this connection
    for j, x in enumerate(w.obs):
        if x[0] == 'rx' and x[1] == c.idx and x[2][:1] == b'\x20':
            return j < i
    return False


def fields(p):
    return (p['topic'], bytes(p['payload']), p['qos'], bool(p['dup']), bool(p['retain']), p['msgId'])


class Mon(Monitor):
    stateless = True

    def step(self, w):
        out = []
        ev = w.hist[-1]
        stored = reference_store(w, w.mark)
        rx = rx_packets(w)
        wr = [(ci, p) for ci, p, o in writes(w) if p['type'] in ('PUBACK', 'PUBREC', 'PUBCOMP')]
        cbs = [o for o in w.new_obs() if o[0] == 'cb' and o[1] == 'onPublish']
        want_w, want_cb = [], []
        for ci, p in rx:
            c = w.conns[ci]
            if w.profile == 'pub' or c.connack_step is None or c.connack_step >= w.step or c.phase != 'connected':
                continue
            if c.close_req is not None and c.close_step < w.step:
                continue
            a = c.addr
            if p['type'] == 'PUBLISH':
                f = fields(p)
                if p['qos'] == 0:
                    want_cb.append((ci, [f]))
                elif p['qos'] == 1:
                    want_w.append((ci, 'PUBACK', p['msgId']))
                    want_cb.append((ci, [f]))
                else:
                    want_w.append((ci, 'PUBREC', p['msgId']))
                    stored[a].setdefault(p['msgId'], []).append(f)
                self.see('publish-q%d' % p['qos'])
            elif p['type'] == 'PUBREL':
                want_w.append((ci, 'PUBCOMP', p['msgId']))
                if p['msgId'] in stored[a]:
                    want_cb.append((ci, list(stored[a].pop(p['msgId']))))
                    self.see('pubrel-stored')
                else:
                    self.see('pubrel-unknown-or-repeated')
        got_w = [(ci, p['type'], p['msgId']) for ci, p in wr]
        if got_w != want_w:
            miss = [x for x in want_w if x not in got_w]
            extra = [x for x in got_w if x not in want_w]
            if miss:
                out.append(V('answer', 'missing-%s/on-%s%s' % (miss[0][1], ev[0], self._ctx(w, ev)),
                             'expected acknowledgements %r, written %r' % (want_w, got_w)))
            elif extra:
                out.append(V('answer', 'unprompted-%s/on-%s' % (extra[0][1], ev[0]),
                             'expected acknowledgements %r, written %r' % (want_w, got_w)))
            else:
                out.append(V('answer', 'acks-reordered-or-duplicated/on-%s' % ev[0],
                             'expected acknowledgements %r, written %r' % (want_w, got_w)))
        got_cb = [(o[2], o[3]) for o in cbs]
        if len(got_cb) != len(want_cb):
            out.append(V('deliver', 'delivered-%d-expected-%d/on-%s%s' % (len(got_cb), len(want_cb), ev[0], self._ctx(w, ev)),
                         'onPublish calls %r, expected one of each %r' % (got_cb, want_cb)))
        else:
            for (ci, f), (ci2, options) in zip(got_cb, want_cb):
                if ci != ci2 or f not in (options[0], options[-1]):
                    out.append(V('deliver', 'delivered-wrong-fields/on-%s' % ev[0],
                                 'onPublish got %r, packet carried %r' % (f, options)))
                else:
                    self.see('delivered')
        return out

    def key(self, w):
        st = reference_store(w, len(w.obs))
        return tuple((a, tuple(sorted(st[a].items()))) for a in sorted(st))

    def _ctx(self, w, ev):
        if ev[0] == 'inrel':
            n = sum(1 for e in w.hist[len(self.scn.init):] if e[0] == 'inrel' and e[2] == ev[2])
            return '/repeat' if n > 1 else ''
        return ''

    def outcome(self, w):
        return tuple(o[3] for o in w.obs if o[0] == 'cb' and o[1] == 'onPublish')


INPUBS = ((0, False, False, 1, 'short'), (0, False, True, 1, 'nonascii'),
          (1, False, False, 1, 'short'), (1, True, True, 2, 'empty'), (1, False, False, 1, 'large'),
          (2, False, False, 1, 'short'), (2, True, False, 1, 'nonascii'), (2, False, True, 2, 'binary'))


class Scn(Std):
    """Adds: two broker packets arriving in ONE segment (what a decoder that reads 'to the end of the buffer' gets wrong)."""

    def enabled(self, w):
        from .. import refcodec as rc
        out = Std.enabled(self, w)
        if self.used(w).get('raw', 0) < self.budgets.get('raw', 0):
            for a in self.addrs:
                c = w.conn(a)
                if c is not None and c.open and w.phase(c) == 'connected':
                    p0 = rc.enc_publish(IN_TOPICS['short'], PAYLOADS['short'], 0)
                    p1 = rc.enc_publish(IN_TOPICS['nonascii'], PAYLOADS['nonascii'], 1, False, True, 2)
                    p2 = rc.enc_publish(IN_TOPICS['binary'], PAYLOADS['binary'], 2, False, False, 1)
                    out.append(('raw', a, p0 + p1))
                    out.append(('raw', a, p2 + rc.enc_ack('PUBREL', 1) + p0))
                    out.append(('raw', a, p1 + rc.enc_ack('PUBREL', 3)))
                    big = rc.enc_publish(IN_TOPICS['large'], PAYLOADS['large'], 1, False, False, 1)
                    out.append(('raw', a, big + rc.enc_ack('PUBREL', 3) + p1))
        return out


def scenarios(ctx):
    q = ctx.quick
    out = []
    for profile, clean, ver in (('sub', False, 4), ('pubsub', True, 3), ('sub', True, 4), ('pubsub', False, 3), ('sub', False, 3),
                                ('pubsub', True, 4)):
        if q and (profile, clean, ver) in (('sub', True, 4), ('pubsub', False, 3), ('sub', False, 3), ('pubsub', True, 4)):
            continue
        init = (('connect', 0, clean, 0, ver), ('connack', 0, 0, False))
        out.append(Scn('%s-%s-v%d' % (profile, 'clean' if clean else 'persist', ver), profile=profile, init=init,
                       connects=[(clean, 0, ver)], reconnects=[(False, 0, ver), (True, 0, ver)],
                       inpubs=INPUBS, inrels=((1,), (2,), (3,), (1, True)), closing=False,
                       budgets=dict(inpub=4 if q else 5, inrel=3 if q else 4, raw=1, lose=2, rebuild=2, connect=2, connack=2, badconnect=1)))
    # the application uses the API from inside onPublish (answers with a publish, or leaves)
    for act in ('pub1', 'disconnect'):
        out.append(Scn('pubsub-reenter-onpublish-%s' % act, profile='pubsub', init=(('connect', 0, False, 0, 4), ('connack', 0, 0, False)),
                       connects=[(False, 0, 4)], reconnects=[(False, 0, 4)], reenter=('onPublish>%s' % act,),
                       inpubs=INPUBS, inrels=((1,), (2,), (1, True)), closing=False,
                       budgets=dict(inpub=3, inrel=3, lose=1, rebuild=1, connect=1, connack=1, disconnect=0, pub=0)))
    return out


def run(ctx):
    ctx.rule = 'BFS over inbound PUBLISH/PUBREL sequences with loss + reconnect; reference receiver as oracle'
    for scn in scenarios(ctx):
        ctx.explore(scn, Mon, closing=False)
    ctx.assumptions = ['a stored QoS 2 copy is delivered as its first or latest repetition (DUP may be either)',
                       'a clean session (loss of a clean connection or a clean CONNECT) discards stored QoS 2 messages']
