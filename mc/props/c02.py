"""C02 -- bytes on the wire are exactly what the MQTT 3.1/3.1.1 specification prescribes."""
import multiprocessing as mp
import os

from .. import codecgrid as g
from .. import refcodec as rc
from ..monitor import Monitor, V, writes, rx_packets
from ..scen import Std
import mqtt.pdu as pdu

PROP = 'C02'

BROKER = ('CONNACK', 'PUBLISH', 'PUBACK', 'PUBREC', 'PUBREL', 'PUBCOMP', 'SUBACK', 'UNSUBACK')


def _packets(args):
    quick, shard, nshards = args
    n, bad = 0, []
    for i, (name, f) in enumerate(g.packet_cases(quick)):
        if i % nshards != shard:
            continue
        n += 1
        try:
            ref = g.ref_encode(name, f)
        except rc.RefError as e:
            bad.append((name, 'harness', 'reference refused a grid case: %s %r' % (e, list(f)[:3])))
            continue
        try:
            raw = bytes(g.lib_encode(name, dict(f)))
        except Exception as e:     # noqa
            bad.append((name, 'exception', '%s: %s on %r' % (type(e).__name__, e, _short(f))))
            continue
        if raw != ref:
            k = next((j for j in range(min(len(raw), len(ref))) if raw[j] != ref[j]), min(len(raw), len(ref)))
            where = 'first-byte' if k == 0 else ('length' if k < 5 and len(raw) != len(ref) else 'body')
            bad.append((name, 'bytes-differ/' + where, '%r: library %s... reference %s... (first difference at byte %d)' % (
                _short(f), raw[:24].hex(), ref[:24].hex(), k)))
        if name in BROKER:
            # a packet the broker sends in the prescribed format must decode to the reference field values
            try:
                d = rc.decode(ref, strict=True)
            except rc.RefError:
                continue        # not a packet in the prescribed format (e.g. SUBACK without return codes)
            try:
                o = g.lib_decode(name, ref)
            except Exception as e:     # noqa
                bad.append((name, 'decode-exception', '%s: %s on %s' % (type(e).__name__, e, ref[:24].hex())))
                continue
            pairs = {'CONNACK': (('session', 'sp'), ('resultCode', 'rc')),
                     'PUBLISH': (('topic', 'topic'), ('payload', 'payload'), ('qos', 'qos'), ('dup', 'dup'), ('retain', 'retain'), ('msgId', 'msgId')),
                     'SUBACK': (('msgId', 'msgId'),)}.get(name, (('msgId', 'msgId'),))
            for a, b in pairs:
                if g.norm(getattr(o, a)) != g.norm(d[b]):
                    bad.append((name, 'decoded-field-differs/' + a, 'library %r, specification %r' % (getattr(o, a), d[b])))
            if name == 'SUBACK' and [c[0] | (0x80 if c[1] else 0) for c in o.granted] != d['codes']:
                bad.append((name, 'decoded-field-differs/granted', '%r vs %r' % (o.granted, d['codes'])))
    return n, bad


def _short(f):
    return {k: (v if not isinstance(v, (str, bytes, bytearray, list)) or len(v) < 20 else '%s[%d]' % (type(v).__name__, len(v)))
            for k, v in f.items() if k != 'version'} | ({'version': f['version']['level']} if 'version' in f else {})


def part_a(ctx):
    n = 0
    nsh = 32
    with mp.get_context('fork').Pool(min(16, os.cpu_count() or 1)) as pool:
        for k, bad in pool.imap_unordered(_packets, [(ctx.quick, i, nsh) for i in range(nsh)]):
            n += k
            for (name, what, detail) in bad:
                ctx.violation({'kind': 'bytes', 'signature': 'codec/%s/%s' % (name, what), 'detail': detail,
                               'history': [[name, detail[:200]]], 'scenario': {'name': 'enum'}})
    m = 0
    for name, f, what in g.unrepresentable_cases():
        m += 1
        try:
            raw = g.lib_encode(name, dict(f))
        except (ValueError, TypeError):
            continue
        except Exception as e:     # noqa
            ctx.violation({'kind': 'refuse', 'signature': 'unrepresentable-raised-other/%s/%s' % (name, type(e).__name__),
                           'detail': '%s with %s raised %s' % (name, what, type(e).__name__), 'history': [[name, what]], 'scenario': {'name': 'enum'}})
            continue
        ctx.violation({'kind': 'refuse', 'signature': 'unrepresentable-encoded/%s/%s' % (name, what.split()[0]),
                       'detail': '%s with %s was encoded to %d bytes' % (name, what, len(raw)), 'history': [[name, what]], 'scenario': {'name': 'enum'}})
    # primitives against the reference
    for v in list(range(0, 70000, 1)) if not ctx.quick else list(range(0, 20000)) + [2097151, 2097152, 268435455]:
        n += 1
        try:
            same = bytes(pdu.encodeLength(v)) == rc.enc_len(v)
        except Exception:      # noqa
            same = False
        if not same:
            ctx.violation({'kind': 'bytes', 'signature': 'codec/remaining-length', 'detail': str(v), 'history': [['len', v]], 'scenario': {'name': 'enum'}})
            break
    for v in (0, 1, 127, 128, 129, 16383, 16384, 16385, 2097151, 2097152, 2097153, 268435454, 268435455):
        n += 1
        try:
            same = pdu.decodeLength(bytearray(rc.enc_len(v))) == v and pdu.decodeLength(bytearray(rc.enc_len(v)) + bytearray(b'\x7f\xff')) == v
        except Exception:      # noqa
            same = False
        if not same:
            ctx.violation({'kind': 'bytes', 'signature': 'codec/remaining-length-decode', 'detail': 'decodeLength(reference encoding of %d)' % v,
                           'history': [['len', v]], 'scenario': {'name': 'enum'}})
            break
    return n + m


# ------------------------------------------------------------------------------------------ part B: live sessions

class Mon(Monitor):
    stateless = True

    def step(self, w):
        out = []
        for ci, p, o in writes(w):
            c = w.conns[ci]
            t = p['type']
            want = None
            if t == 'CONNECT':
                r = w.reqs[c.connect_req] if c.connect_req is not None else None
                if r is not None:
                    kw = dict(r.args.get('extra') or ())
                    want = rc.enc_connect('verif-%d' % c.addr, r.args['ka'], r.args['clean'], r.args['ver'],
                                          kw.get('willTopic'), kw.get('willMessage'), kw.get('willQoS', 0), kw.get('willRetain', False),
                                          kw.get('username'), kw.get('password'))
            elif t == 'PUBLISH' and p.get('req') is not None:
                r = w.reqs[p['req']]
                ntx = len([x for x in r.tx if x[0] < w.step]) + self._before(w, o, p, r)
                want = rc.enc_publish(r.args['topic'], r.args['payload'], r.qos, bool(r.qos) and ntx > 0, r.args['retain'], r.msgId if r.qos else None)
            elif t in ('SUBSCRIBE', 'UNSUBSCRIBE') and p.get('req') is not None:
                r = w.reqs[p['req']]
                ntx = len([x for x in r.tx if x[0] < w.step]) + self._before(w, o, p, r)
                dup = ntx > 0 and c.level == 3
                want = rc.enc_subscribe(r.msgId, r.args['topics'], dup) if t == 'SUBSCRIBE' else rc.enc_unsubscribe(r.msgId, r.args['topics'], dup)
            elif t == 'PUBREL' and p.get('req') is not None:
                r = w.reqs[p['req']]
                n = len([x for x in r.rel_tx if x[0] < w.step]) + self._before(w, o, p, r, rel=True)
                want = rc.enc_ack('PUBREL', r.msgId, dup=(n > 0 and c.level == 3))
            elif t in ('PUBACK', 'PUBREC', 'PUBCOMP'):
                want = rc.enc_ack(t, p['msgId'])
            elif t == 'PINGREQ':
                want = rc.enc_pingreq()
            elif t == 'DISCONNECT':
                want = rc.enc_disconnect()
            if want is None:
                out.append(V('live', 'unattributed-packet/%s' % t, p['raw'].hex()))
            elif want != p['raw']:
                out.append(V('live', 'live-bytes-differ/%s/v%d' % (t, c.level), 'written %s, specification %s' % (p['raw'].hex(), want.hex())))
            else:
                self.see('%s/v%d' % (t, c.level))
        for o in w.new_obs():
            if o[0] == 'w' and o[6]:
                out.append(V('live', 'unparsable-write', '%r' % (o[6],)))
        return out

    def _before(self, w, o, p, r, rel=False):
        n = 0
        for x in w.new_obs():
            if x[0] != 'w':
                continue
            for q in x[5]:
                if q is p:
                    return n
                if q.get('req') == r.idx and q['type'] == p['type']:
                    n += 1
        return n


EXTRAS = ((), (('willTopic', 'w/é'), ('willMessage', 'bye €'), ('willQoS', 2), ('willRetain', True)),
          (('username', 'üser'), ('password', 'päss€')), (('username', 'u'),))


class Scn(Std):
    """Connect menu with will / user / password variants."""

    def enabled(self, w):
        out = []
        for e in Std.enabled(self, w):
            if e[0] == 'connect':
                for x in EXTRAS:
                    out.append(e + (x,))
            else:
                out.append(e)
        return out


def scenarios(ctx):
    q = ctx.quick
    out = []
    inp = ((1, False, False, 1, 'short'), (2, True, True, 2, 'nonascii'))
    for ver in (3, 4):
        out.append(Scn('live-pub-v%d' % ver, profile='pub', mode='async', closing=False,
                       connects=[(True, 0, ver), (False, 3, ver)], reconnects=[(False, 3, ver)], pub_qos=(0, 1, 2),
                       budgets=dict(connect=1, connack=1, pub=3 if not q else 1, ack=3 if not q else 1, tick=2 if q else 4,
                                    disconnect=1)))
        out.append(Std('live-resume-v%d' % ver, profile='pub', mode='sync', closing=False,
                       init=(('connect', 0, False, 0, ver), ('connack', 0, 0, False), ('setwin', 0, 2)),
                       connects=[(False, 0, ver)], reconnects=[(False, 0, ver)], pub_qos=(1, 2), pub_retain=(False, True),
                       budgets=dict(pub=2 if q else 3, ack=1 if q else 3, tick=2 if q else 3, lose=1 if q else 2, rebuild=1 if q else 2,
                                    connect=1 if q else 2, connack=1 if q else 2)))
        out.append(Std('live-sub-v%d' % ver, profile='pubsub', mode='async', closing=False,
                       init=(('connect', 0, True, 2, ver), ('connack', 0, 0, False)),
                       sub_shapes=('str', 'list'), unsub_shapes=('str', 'list'), inpubs=inp, inrels=((2,),),
                       budgets=dict(sub=1 if q else 2, unsub=1, ack=1 if q else 2, tick=2 if q else 4, inpub=1 if q else 2, inrel=1 if q else 2,
                                    disconnect=1)))
    return out


def run(ctx):
    ctx.rule = ('part A: the C01 grid for both protocol levels, library bytes == reference bytes, reference broker packets '
                'decode to reference fields, unrepresentable inputs raise; part B: BFS of live sessions where every '
                'transport.write is compared with the reference encoding of the API arguments')
    n = part_a(ctx)
    ctx.add_enum(n, max(2, n // 50), [{'packet': 'CONNECT', 'version': 3, 'flags': 'will qos2 retain user password'},
                                      {'unrepresentable': 'topic of 65536 bytes'}])
    ctx.executions += n
    ctx.extra['part_a_cases'] = n
    for scn in scenarios(ctx):
        ctx.explore(scn, Mon, closing=False)
    ctx.assumptions = ['mc/refcodec.py (self-tested against the byte examples of the specification) is the judge']
