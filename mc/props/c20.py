"""C20 -- invalid arguments rejected atomically with ValueError/TypeError; valid accepted."""
from ..monitor import V
from ..world import World, canon_world, VERSIONS
from mqtt import v31, v311

PROP = 'C20'

S65535 = 'a' * 65535
S65536 = 'a' * 65536
U65535 = '€' * 21845            # 3 bytes each -> exactly 65535 bytes
U65536 = '€' * 21845 + 'a'      # 65536 bytes, only 21846 characters


def cases():
    """(entry point, args, kwargs, verdict) verdict: 'valid' | 'invalid' (listed in the statement) |
    'illtyped' (not listed: raise or failed Deferred, still ValueError/TypeError and atomic)."""
    out = []
    for n, ok in ((-1, 0), (0, 0), (1, 1), (2, 1), (16, 1), (17, 0), (32, 0)):
        out.append(('setWindowSize', (n,), {}, 'valid' if ok else 'invalid'))
    out.append(('setWindowSize', (None,), {}, 'illtyped'))
    out.append(('setWindowSize', ('3',), {}, 'illtyped'))
    for n, ok in ((-1, 0), (0, 0), (1, 1), (4, 1), (1024, 1), (1025, 0), (65536, 0)):
        out.append(('setTimeout', (n,), {}, 'valid' if ok else 'invalid'))
    out.append(('setTimeout', (None,), {}, 'illtyped'))
    for b in (-1, 0, 0.001, 1, 10000):
        for f in (-1, 0, 1, 2):
            out.append(('setBandwith', (b, f), {}, 'valid' if b > 0 and f > 0 else 'invalid'))
    out.append(('setBandwith', (None,), {}, 'illtyped'))
    base = dict(clientId='cid', keepalive=0, cleanStart=True, version=v311)

    def conn(verdict, **kw):
        d = dict(base)
        d.update(kw)
        out.append(('connect', (), d, verdict))
    for q, ok in ((-1, 0), (0, 1), (1, 1), (2, 1), (3, 0)):
        conn('valid' if ok else 'invalid', willQoS=q, willTopic='w/t', willMessage='bye')
    conn('invalid', willQoS=3)
    for k, ok in ((-1, 0), (0, 1), (1, 1), (65535, 1), (65536, 0)):
        conn('valid' if ok else 'invalid', keepalive=k)
    conn('illtyped', keepalive=None)
    conn('valid', clientId='c' * 23, version=v31)
    conn('invalid', clientId='c' * 24, version=v31)
    conn('valid', clientId='c' * 24, version=v311)
    conn('valid', clientId='', version=v311)
    conn('valid', version=v31)
    for ver in (0, None, {'level': 5, 'tag': 'MQTT'}, 'v311'):
        conn('invalid', version=ver)
    conn('invalid', willTopic='w/t')
    conn('invalid', willMessage='bye')
    conn('invalid', password='secret')
    conn('valid', username='u', password='secret')
    conn('valid', username='u')
    conn('valid', willTopic='w/t', willMessage='bye', willRetain=True)
    for field in ('clientId', 'willTopic', 'willMessage', 'username', 'password'):
        for s, ok in ((S65535, 1), (S65536, 0), (U65535, 1), (U65536, 0)):
            kw = {field: s}
            if field == 'willTopic':
                kw['willMessage'] = 'bye'
            if field == 'willMessage':
                kw['willTopic'] = 'w/t'
            if field == 'password':
                kw['username'] = 'u'
            conn('valid' if ok else 'invalid', **kw)
    conn('illtyped', clientId=None)
    conn('illtyped', clientId=5)
    for q, ok in ((-1, 0), (0, 1), (1, 1), (2, 1), (3, 0)):
        out.append(('publish', (), dict(topic='a/b', message='m', qos=q), 'valid' if ok else 'invalid'))
    for q in (0, 1):
        for pl, ok in (('text', 1), (bytearray(b'\x00\xff'), 1), ('', 1), (bytearray(), 1), (b'bytes', 0), (5, 0), (1.5, 0),
                       (None, 0), (['l'], 0), (True, 0)):
            out.append(('publish', (), dict(topic='a/b', message=pl, qos=q), 'valid' if ok else 'invalid'))
        for s, ok in ((S65535, 1), (S65536, 0), (U65535, 1), (U65536, 0)):
            out.append(('publish', (), dict(topic=s, message='m', qos=q), 'valid' if ok else 'invalid'))
        out.append(('publish', (), dict(topic=None, message='m', qos=q), 'illtyped'))
        out.append(('publish', (), dict(topic=5, message='m', qos=q), 'illtyped'))
    out.append(('publish', (), dict(topic='a', message='m', qos=None), 'illtyped'))
    for q, ok in ((-1, 0), (0, 1), (1, 1), (2, 1), (3, 0)):
        v = 'valid' if ok else 'invalid'
        out.append(('subscribe', ('a/b', q), {}, v))
        out.append(('subscribe', (('a/b', q),), {}, v))
        out.append(('subscribe', ([('a/b', 1), ('c/d', q)],), {}, v))
    for t in (5, None, {'a': 1}, b'a/b', 1.5):
        out.append(('subscribe', (t, 1), {}, 'invalid'))
    for t in ([5], ['a', 'b'], [('a', 1, 2)], [(5, 1)], [('a', None)]):
        out.append(('subscribe', (t,), {}, 'illtyped'))
    out.append(('subscribe', (S65535, 1), {}, 'valid'))
    out.append(('subscribe', (S65536, 1), {}, 'invalid'))
    out.append(('unsubscribe', ('a/b',), {}, 'valid'))
    out.append(('unsubscribe', (['a/b', 'c/d'],), {}, 'valid'))
    for t in (5, None, {'a': 1}, b'a/b', ('a/b', 'c/d'), 1.5):
        out.append(('unsubscribe', (t,), {}, 'invalid'))
    for t in ([5], [None], [('a', 1)]):
        out.append(('unsubscribe', (t,), {}, 'illtyped'))
    out.append(('unsubscribe', (S65535,), {}, 'valid'))
    out.append(('unsubscribe', (S65536,), {}, 'invalid'))
    out.append(('unsubscribe', ([U65536],), {}, 'invalid'))
    return out


BASES = {
    'idle': (),
    'connecting': (('connect', 0, True, 0, 4),),
    # a rebuilt, still idle protocol whose address carries the session of an earlier persistent connection
    'idle-with-session': (('connect', 0, False, 0, 4), ('connack', 0, 0, False), ('setwin', 0, 1), ('pub', 0, 1), ('pub', 0, 2),
                          ('sub', 0, 'str'), ('inpub', 0, 2, False, False, 9, 'short'), ('lose', 0, 'done'), ('tick', 0),
                          ('rebuild', 0)),
    'connected': (('connect', 0, True, 0, 4), ('connack', 0, 0, False), ('setwin', 0, 3)),
    'connected-busy': (('connect', 0, False, 0, 3), ('connack', 0, 0, False), ('setwin', 0, 3), ('pub', 0, 1), ('pub', 0, 2),
                       ('sub', 0, 'str'), ('unsub', 0, 'str')),
    'connected-ka': (('connect', 0, True, 5, 4), ('connack', 0, 0, False), ('setwin', 0, 2), ('pub', 0, 2),
                     ('ack', 0, 'PUBREC', ('r', 1))),
}

ALLOWED = {   # entry point -> base states (and profiles) in which the call is otherwise allowed
    'setWindowSize': ('idle', 'connecting', 'connected', 'connected-busy', 'connected-ka'),
    'setTimeout': ('idle', 'connecting', 'connected', 'connected-busy', 'connected-ka'),
    'setBandwith': ('idle', 'connecting', 'connected', 'connected-busy', 'connected-ka'),
    'connect': ('idle', 'idle-with-session'),
    'publish': ('connecting', 'connected', 'connected-busy', 'connected-ka'),
    'subscribe': ('connected', 'connected-busy'),
    'unsubscribe': ('connected', 'connected-busy'),
}
PROFILES_FOR = {'publish': ('pub', 'pubsub'), 'subscribe': ('sub', 'pubsub'), 'unsubscribe': ('sub', 'pubsub')}


def masked_canon(w):
    ids = [f.id for f in w.factories]
    for f in w.factories:
        f.id = -1
    try:
        return canon_world(w)
    finally:
        for f, i in zip(w.factories, ids):
            f.id = i


def evaluate(profile, base, case):
    name, args, kwargs, verdict = case
    w = World(dict(profile=profile, mode='async'))
    for ev in BASES[base]:
        if ev[0] in ('pub',) and profile == 'sub':
            continue
        if ev[0] in ('sub', 'unsub') and profile == 'pub':
            continue
        if ev[0] == 'ack' and profile == 'sub':
            continue
        if ev[0] == 'inpub' and profile == 'pub':
            continue
        try:
            w.apply(ev)
        except Exception as e:      # noqa
            return [V('prefix', 'base-history-misbehaves/%s' % base, 'scripted event %r failed with %s: %s' % (ev, type(e).__name__, e))], 'base-broken'
    before = masked_canon(w)
    pend0 = [r.pending for r in w.reqs]
    timers0 = len(w.pending_calls())
    w.apply(('call', 0, name, args, kwargs))
    r = w.calls[-1]
    wrote = [p['type'] for o in w.new_obs() if o[0] == 'w' for p in o[5]]
    after = masked_canon(w)
    is_setter = name.startswith('set')
    failed_deferred = r.ret == 'deferred' and r.fires and r.fires[0][1] == 'err'
    raised = r.ret == 'raise'
    refused = failed_deferred or raised
    mro = r.exc_mro
    v = []
    tag = '%s/%s' % (name, _argtag(case))
    if verdict == 'valid':
        if refused:
            v.append(V('valid', 'valid-argument-refused/%s/%s' % (tag, r.exc or r.fires[0][2]),
                       '%s(%s) in %s/%s refused with %s' % (name, _short(args, kwargs), profile, base, r.exc or r.fires[0][2])))
        return v, 'accepted'
    if not refused:
        v.append(V('invalid', 'invalid-argument-accepted/%s' % tag, '%s(%s) in %s/%s was accepted' % (name, _short(args, kwargs), profile, base)))
        return v, 'accepted'
    if not ('ValueError' in mro or 'TypeError' in mro):
        v.append(V('type', 'refused-with-other-exception/%s/%s' % (tag, mro[0] if mro else None),
                   '%s(%s) in %s/%s failed with %s' % (name, _short(args, kwargs), profile, base, mro[:1])))
    if verdict == 'invalid':
        if is_setter and not raised:
            v.append(V('how', 'setter-did-not-raise/%s' % tag, ''))
        if not is_setter and not failed_deferred:
            v.append(V('how', 'request-raised-instead-of-failed-deferred/%s/%s' % (tag, r.exc),
                       '%s(%s) raised %s instead of returning a failed Deferred' % (name, _short(args, kwargs), r.exc)))
    if wrote:
        v.append(V('atomic', 'refused-call-wrote/%s' % tag, 'wrote %r' % wrote))
    if [r.pending for r in w.reqs[:len(pend0)]] != pend0:
        v.append(V('atomic', 'refused-call-settled-pending-requests/%s' % name, '%s(%s) in %s/%s refused, but pending requests '
                   'were settled by it' % (name, _short(args, kwargs), profile, base)))
    elif after != before:
        v.append(V('atomic', 'refused-call-changed-state/%s' % tag, '%s(%s) in %s/%s refused but the state changed' % (name, _short(args, kwargs), profile, base)))
    if len(w.pending_calls()) != timers0:
        v.append(V('atomic', 'refused-call-started-timer/%s' % tag, ''))
    return v, 'refused:%s' % (mro[0] if mro else None)


def _short(args, kwargs):
    s = repr(args) + repr(kwargs)
    return s if len(s) < 120 else s[:60] + '...' + s[-40:]


def _argtag(case):
    name, args, kwargs, verdict = case
    vals = list(args) + [kwargs[k] for k in sorted(kwargs) if k not in ('clientId', 'cleanStart') or name != 'connect' or
                         kwargs[k] not in ('cid', True)]
    parts = []
    for x in vals:
        if isinstance(x, (str, bytes, bytearray)) and len(x) > 12:
            parts.append('%s[%d]' % (type(x).__name__, len(x.encode('utf-8')) if isinstance(x, str) else len(x)))
        elif isinstance(x, dict):
            parts.append('dict')
        else:
            parts.append(repr(x))
    return ','.join(parts)[:70].replace('/', '|')


def run(ctx):
    ctx.rule = ('every boundary / wrong-type case of every argument of every API entry point, in every base state and '
                'profile where the call is otherwise allowed; distinct = distinct (entry point, case, outcome)')
    cs = cases()
    n, outcomes = 0, set()
    samples = []
    for profile in ('pub', 'sub', 'pubsub'):
        for case in cs:
            name = case[0]
            if profile not in PROFILES_FOR.get(name, ('pub', 'sub', 'pubsub')):
                continue
            for base in ALLOWED[name]:
                if ctx.quick and base == 'connected-ka' and name not in ('publish', 'setWindowSize'):
                    continue
                v, oc = evaluate(profile, base, case)
                n += 1
                outcomes.add((name, _argtag(case), oc))
                if len(samples) < 6 and n % 211 == 1:
                    samples.append({'profile': profile, 'base': base, 'call': name, 'args': _short(case[1], case[2]), 'outcome': oc})
                for x in v:
                    x = dict(x)
                    x['history'] = [list(e) for e in BASES[base]] + [['call', 0, name, _short(case[1], case[2])]]
                    x['scenario'] = {'name': 'enum', 'profile': profile, 'base': base, 'case': cs.index(case)}
                    ctx.violation(x)
    ctx.add_enum(n, len(outcomes), samples)
    ctx.executions += n
    ctx.extra['cases'] = len(cs)
    ctx.assumptions = ['the identifier counter is not part of the state comparison',
                       'ill-typed arguments the statement does not list may raise or return a failed Deferred']


def replay(rec):
    sc = rec['scenario']
    case = cases()[sc['case']]
    v, oc = evaluate(sc['profile'], sc['base'], case)
    print(sc, _short(case[1], case[2]), oc)
    for x in v:
        print('  >>>', x['signature'], x['detail'])
    if any(x['signature'] == rec['signature'] for x in v):
        print('VIOLATION property=%s replay=%s' % (PROP, rec['_path']))
        return 1
    return 0
