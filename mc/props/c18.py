"""C18 -- each connection's output is a well-formed client packet stream led by CONNECT."""
from .. import refcodec as rc
from ..monitor import Monitor, V, CONNECTED
from ..scen import Std

PROP = 'C18'


class Mon(Monitor):
    stateless = True

    def step(self, w):
        out = []
        ev = w.hist[-1]
        touched = set(o[1] for o in w.new_obs() if o[0] == 'w')
        for ci in touched:
            c = w.conns[ci]
            # the whole stream of this connection, with the step and flags of every write
            chunks = [o for o in w.obs if o[0] == 'w' and o[1] == ci]
            new_from = sum(len(o[2]) for o in chunks if not self._is_new(w, o))
            stream = b''.join(o[2] for o in chunks)
            for o in chunks:
                if self._is_new(w, o) and o[4]:
                    out.append(V('after-loss', 'write-after-loss/on-%s' % ev[0],
                                 'connection %d: %d bytes written after its loss was reported' % (ci, len(o[2]))))
            try:
                pkts, rest = rc.split_stream(stream)
            except rc.RefError as e:
                out.append(V('malformed', 'unparsable-stream', 'connection %d: %s' % (ci, e)))
                continue
            if rest:
                out.append(V('malformed', 'incomplete-packet-at-end-of-step', 'connection %d: trailing %r' % (ci, rest[:16])))
            level = 4
            off = 0
            seen_connect = 0
            disc_at = None
            for k, raw in enumerate(pkts):
                is_new = off + len(raw) > new_from
                off += len(raw)
                t = raw[0] >> 4
                name = rc.NAMES.get(t, 'type-%d' % t)
                if k == 0 and name == 'CONNECT':
                    try:
                        level = rc.decode(raw, strict=False).get('level', 4)
                    except rc.RefError:
                        pass
                if not is_new:
                    if name == 'CONNECT':
                        seen_connect += 1
                    if name == 'DISCONNECT':
                        disc_at = k
                    continue
                try:
                    d = rc.decode(raw, level=level if level in (3, 4) else 4, strict=True)
                except rc.RefError as e:
                    out.append(V('malformed', 'malformed/%s' % name, 'connection %d packet %d: %s (%s)' % (ci, k, e, raw[:12].hex())))
                    continue
                if name not in rc.CLIENT_TO_BROKER:
                    out.append(V('malformed', 'broker-only-packet/%s' % name, 'connection %d wrote a %s' % (ci, name)))
                if k == 0 and name != 'CONNECT':
                    out.append(V('connect', 'first-packet-not-connect/%s/on-%s' % (name, ev[0]),
                                 'connection %d: first packet is %s' % (ci, name)))
                if name == 'CONNECT':
                    seen_connect += 1
                    if seen_connect > 1:
                        out.append(V('connect', 'second-connect/on-%s/phase-%s' % (ev[0], self._phase_before(w, c)),
                                     'connection %d: CONNECT written %d times' % (ci, seen_connect)))
                    if ev[0] not in ('connect', 'reconn2'):
                        out.append(V('connect', 'connect-outside-connect-call/on-%s' % ev[0], 'connection %d' % ci))
                    else:
                        self.see('connect-v%s' % level)
                if disc_at is not None:
                    out.append(V('disconnect', 'packet-after-disconnect/%s/on-%s' % (name, ev[0]),
                                 'connection %d: %s written after DISCONNECT' % (ci, name)))
                if name == 'DISCONNECT':
                    disc_at = k
                    closed = any(o[0] == 'close' and o[1] == ci for o in w.new_obs())
                    called = any(o[0] == 'call' and o[2] == 'disconnect' and o[3] == ci for o in w.new_obs())
                    if not called:
                        out.append(V('disconnect', 'disconnect-outside-disconnect-call/on-%s' % ev[0], 'connection %d' % ci))
                    elif not closed:
                        out.append(V('disconnect', 'disconnect-without-close-request', 'connection %d' % ci))
                    else:
                        self.see('disconnect')
                if name in ('PUBLISH', 'PUBREL', 'SUBSCRIBE', 'UNSUBSCRIBE', 'PUBACK', 'PUBREC', 'PUBCOMP', 'PINGREQ'):
                    self.see('pkt-' + name)
        return out

    def _is_new(self, w, o):
        for x in w.new_obs():
            if x is o:
                return True
        return False

    def _phase_before(self, w, c):
        return 'lost' if (c.lost and c.lost_step < w.step) else c.phase

    def outcome(self, w):
        return tuple(tuple(p['type'] for o in w.obs if o[0] == 'w' and o[1] == c.idx for p in o[5]) for c in w.conns)


def scenarios(ctx):
    q = ctx.quick
    out = []
    inp = ((1, False, False, 1, 'short'), (2, False, False, 2, 'short'))
    for mode in ('sync', 'async'):
        # A. handshake: every way of (re)using a protocol object for connect()
        out.append(Std('handshake-%s' % mode, profile='pubsub', mode=mode, connects=[(True, 0, 4), (False, 2, 3)],
                       reconnects=[(False, 2, 3)], pub_qos=(1,), api_after_close=True, rx_after_close=True,
                       budgets=dict(connect=2, connack=2, badconnack=1, reconn2=2, pub=1, tick=2, lose=1, rebuild=1,
                                    disconnect=1), closing=False))
        # B. established session: traffic, expiries, disconnect()/loss and API calls until the loss is reported
        out.append(Std('pub-%s' % mode, profile='pub', mode=mode, init=CONNECTED, reconnects=[(True, 0, 4)],
                       pub_qos=(0, 1, 2), api_after_close=True, rx_after_close=True, pub_kinds=('rl128',),
                       budgets=dict(pub=2, ack=2 if q else 3, misack=1, tick=2, lose=1, rebuild=1, disconnect=1, connect=1,
                                    connack=1, reconn2=1), closing=False))
        out.append(Std('sub-%s' % mode, profile='sub', mode=mode,
                       init=(('connect', 0, True, 2, 3), ('connack', 0, 0, False)),
                       reconnects=[(True, 0, 4)], api_after_close=True, rx_after_close=True,
                       budgets=dict(sub=1, unsub=1, ack=1, tick=2 if q else 3, lose=1, disconnect=1, inpub=1 if q else 2,
                                    inrel=1, pingresp=1),
                       inpubs=inp, inrels=((2,),), closing=False))
        out.append(Std('pubsub-ka-%s' % mode, profile='pubsub', mode=mode,
                       init=(('connect', 0, False, 2, 4), ('connack', 0, 0, False)),
                       reconnects=[(False, 2, 4)], pub_qos=(2,), api_after_close=True, rx_after_close=True,
                       budgets=dict(pub=1, sub=1, ack=1 if q else 2, tick=2 if q else 3, lose=1, disconnect=1, inpub=1, inrel=1,
                                    rebuild=1, connect=1, connack=1),
                       inpubs=inp[1:], inrels=((2,),), closing=False))
    # persistent session with a mixed-QoS queue carried across a loss (what is released or re-sent at CONNACK must be well-formed)
    out.append(Std('persist-queue', profile='pub', mode='sync', init=(('connect', 0, False, 0, 4), ('connack', 0, 0, False)),
                   connects=[(False, 0, 4)], reconnects=[(False, 0, 4), (False, 0, 3)], pub_qos=(0, 1, 2), windows=(2,),
                   budgets=dict(pub=3, ack=1 if q else 2, dack=0 if q else 1, lose=1, rebuild=1, connect=1, connack=1, setwin=1, tick=0 if q else 2),
                   closing=False))
    # a persistent session begun under 3.1 (where repeats of SUBSCRIBE, UNSUBSCRIBE and PUBREL carry DUP) is resumed under 3.1.1
    out.append(Std('persist-v31-to-v311', profile='pubsub', mode='sync', init=(('connect', 0, False, 0, 3), ('connack', 0, 0, False)),
                   connects=[(False, 0, 3)], reconnects=[(False, 0, 4)], pub_qos=(2,),
                   budgets=dict(pub=1, sub=1, unsub=1, ack=1, tick=2 if q else 3, lose=1, rebuild=1, connect=1, connack=1), closing=False))
    # every argument shape of subscribe()/unsubscribe(), the empty list included (a SUBSCRIBE without topics is malformed)
    out.append(Std('sub-shapes', profile='sub', mode='sync', init=CONNECTED + (('setwin', 0, 2),), sub_shapes=('str', 'tuple', 'list', 'empty'),
                   unsub_shapes=('str', 'list', 'empty'), budgets=dict(sub=2, unsub=1, ack=1, tick=1), closing=False))
    # repeated acknowledgements, then disconnect()/loss, then time passes
    for mode in ('sync', 'async'):
        out.append(Std('q2-dup-acks-%s' % mode, profile='pub', mode=mode, init=CONNECTED, pub_qos=(2,), api_after_close=True,
                       rx_after_close=True, budgets=dict(pub=1, ack=2, dack=1, disconnect=1, lose=1, tick=3), closing=False))
    # the transport is lost before connect() was ever called; the application connects all the same
    for mode in ('sync', 'async'):
        out.append(Std('lost-before-connect-%s' % mode, profile='pubsub', mode=mode, connects=[(True, 0, 4), (False, 2, 3)],
                       reconnects=[(False, 2, 3)], pub_qos=(1,), api_after_close=True, rx_after_close=True, lose_new=True,
                       budgets=dict(connect=1, connack=1, reconn2=1, pub=1, tick=2, lose=2, rebuild=1), closing=False))
    # re-entrant use of the API from inside the application's own callbacks
    for mode in ('sync', 'async'):
        out.append(Std('reenter-errback-publish-%s' % mode, profile='pub', mode=mode, init=CONNECTED + (('setwin', 0, 2),),
                       reenter=('err:pub>pub',), pub_qos=(1, 2), reconnects=[(True, 0, 4)], closing=False,
                       budgets=dict(pub=2, ack=1, tick=2, lose=1, disconnect=1, rebuild=1, connect=1, connack=1)))
        out.append(Std('reenter-ack-disconnect-%s' % mode, profile='pub', mode=mode, init=CONNECTED,
                       reenter=('ok:pub>disconnect',), pub_qos=(1, 2), windows=(1, 2), closing=False,
                       budgets=dict(pub=2, ack=3, tick=2, setwin=1)))
        out.append(Std('reenter-onpublish-disconnect-%s' % mode, profile='pubsub', mode=mode, init=CONNECTED,
                       reenter=('onPublish>disconnect',), pub_qos=(1,), inpubs=inp + ((0, False, False, 1, 'short'),),
                       inrels=((2,),), closing=False,
                       budgets=dict(pub=1, inpub=2, inrel=1, tick=2, ack=1)))
    for mode in ('sync', 'async'):
        out.append(Std('reenter-connected-disconnect-%s' % mode, profile='pubsub', mode=mode,
                       init=(('connect', 0, False, 2, 4), ('connack', 0, 0, False), ('setwin', 0, 2)),
                       reenter=('onMqttConnectionMade@1>disconnect',), reconnects=[(False, 2, 4)], pub_qos=(1, 2), closing=False,
                       budgets=dict(pub=2, sub=1, ack=1, lose=1, rebuild=1, connect=1, connack=1, tick=3)))
    return out


def run(ctx):
    ctx.rule = ('BFS over symbolic event histories; every connection\'s concatenated writes are parsed by the strict '
                'reference decoder after every step')
    for scn in scenarios(ctx):
        ctx.explore(scn, Mon, closing=False)
    ctx.assumptions = ['strict reference decoder (mc/refcodec.py) is the judge']
