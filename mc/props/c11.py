"""C11 -- clean session: connection loss fails everything pending and nothing carries over."""
from ..monitor import Monitor, V, fires, writes, pending_before, CONNECTED
from ..scen import Std

PROP = 'C11'


class Mon(Monitor):
    stateless = True

    def step(self, w):
        out = []
        ev = w.hist[-1]
        fr = fires(w, ('pub', 'sub', 'unsub'))
        for o in w.new_obs():
            if o[0] != 'lost':
                continue
            c = w.conns[o[1]]
            if not c.n_connects or not c.clean:
                continue
            how = self._loss_kind(w, c, ev)
            self.see('clean-loss/' + how)
            for r in w.reqs:
                if r.addr != c.addr or r.kind not in ('pub', 'sub', 'unsub') or r.ret != 'deferred':
                    continue
                if r.kind == 'pub' and not r.qos:
                    continue
                if not pending_before(w, r) and not (r.call_step == w.step):
                    continue
                if r.call_step == w.step and r.failed and r.fires[0][2] == 'MQTTStateError' and \
                        self._called_after_loss(w, r, o):
                    continue        # a call made (re-entrantly) after the loss was reported and refused for that reason
                stage = self._stage(r)
                if r.pending:
                    out.append(V('notfailed', 'pending-after-clean-loss/%s/%s' % (r.kind, stage),
                                 '%s request %d (%s) still pending after the clean connection was lost (%s)' % (
                                     r.kind, r.idx, stage, how)))
                    continue
                f = [x for x in r.fires if x[0] == w.step]
                if len(r.fires) > 1:
                    out.append(V('twice', 'fired-twice-at-loss/%s' % r.kind, 'request %d fired %d times' % (r.idx, len(r.fires))))
                elif f and f[0][1] == 'err' and not f[0][3]:
                    out.append(V('reason', 'failed-with-other-reason/%s/%s' % (r.kind, f[0][2]),
                                 '%s request %d failed with %s, not with the reason of the loss (%s)' % (
                                     r.kind, r.idx, f[0][2], o[2])))
                elif f and f[0][1] == 'err':
                    self.see('failed-with-reason/%s/%s' % (r.kind, stage))
                elif f and f[0][1] == 'ok' and not self._acked_in_step(w, r):
                    out.append(V('reason', 'succeeded-at-loss/%s/%s' % (r.kind, stage),
                                 '%s request %d (%s) SUCCEEDED in the step that lost its clean connection (%s)' % (
                                     r.kind, r.idx, stage, how)))
        # nothing of an ended clean connection is carried over
        for ci, p, o in writes(w):
            c = w.conns[ci]
            if p.get('req') is None:
                if p['type'] == 'PUBREL':
                    out.append(V('carry', 'pubrel-for-unknown-request', 'PUBREL(%r) on connection %d' % (p['msgId'], ci)))
                continue
            r = w.reqs[p['req']]
            if r.conn == ci and c.lost and c.clean and c.n_connects:
                # something of the ended clean connection lives on (a timer nobody stopped) and still writes for it
                out.append(V('carry', 'activity-after-clean-loss/%s/q%s' % (p['type'], r.qos),
                             '%s of request %d written after its clean connection %d had ended' % (p['type'], r.idx, ci)))
            if r.conn != ci and not w.session_alive(r) and r.addr == c.addr:
                out.append(V('carry', 'carried-over/%s/q%s' % (p['type'], r.qos),
                             '%s of request %d (made on connection %d, clean session) written on connection %d' % (
                                 p['type'], r.idx, r.conn, ci)))
        return out

    def _called_after_loss(self, w, r, lost_obs):
        seen = False
        for x in w.new_obs():
            if x is lost_obs:
                seen = True
            if x[0] == 'call' and x[1] == r.idx:
                return seen
        return False

    def _acked_in_step(self, w, r):
        from ..monitor import rx_packets
        need = {'pub': ('PUBACK', 'PUBCOMP'), 'sub': ('SUBACK',), 'unsub': ('UNSUBACK',)}[r.kind]
        return any(p['type'] in need and p.get('msgId') == r.msgId for ci, p in rx_packets(w))

    def _stage(self, r):
        if not r.tx:
            return 'held-back'
        if r.rel_tx:
            return 'released'
        if len(r.tx) > 1:
            return 'retransmitted'
        return 'sent'

    def _loss_kind(self, w, c, ev):
        if ev[0] == 'lose':
            return 'peer-' + ev[2]
        if ev[0] == 'lossdeliver':
            return 'async-' + str(c.close_req)
        if ev[0] == 'disconnect':
            return 'disconnect'
        if ev[0] == 'tick':
            return 'timer-' + str(w.tick_info[0] if w.tick_info else None)
        if ev[0] == 'raw':
            return 'abort-after-corrupt'
        return ev[0]

    def at_end(self, w):
        out = []
        for r in w.reqs:
            if r.kind in ('pub', 'sub', 'unsub') and r.ret == 'deferred' and len(r.fires) != 1:
                out.append(V('notfailed', 'not-fired-once-at-end/%s/%d' % (r.kind, len(r.fires)), 'request %d' % r.idx))
        return out

    def outcome(self, w):
        return tuple((r.kind, r.qos, r.fires[0][1:3] if r.fires else None) for r in w.reqs if r.kind != 'connect')


class Scn(Std):
    """Adds a corrupt packet (client aborts) to the alphabet."""

    def enabled(self, w):
        out = Std.enabled(self, w)
        u = self.used(w)
        for a in self.addrs:
            c = w.conn(a)
            if c is not None and c.open and w.phase(c) == 'connected' and u.get('raw', 0) < self.budgets.get('raw', 0):
                out.append(('raw', a, b'\x40\x01\x00'))      # PUBACK with a 1-byte body: undecodable
        return out


def scenarios(ctx):
    q = ctx.quick
    out = []
    common = dict(tick=1, lose=1, raw=1, disconnect=1, rebuild=1, connect=1, connack=1)
    for mode in ('sync', 'async'):
        out.append(Scn('pub-%s' % mode, profile='pub', mode=mode, init=CONNECTED + (('setwin', 0, 2),),
                       reconnects=[(True, 0, 4)], budgets=dict(common, pub=3 if not q else 2, ack=1 if q else 3, misack=1),
                       pub_qos=(0, 1, 2), lose_kinds=('done', 'lost')))
        out.append(Scn('sub-%s' % mode, profile='sub', mode=mode, init=CONNECTED + (('setwin', 0, 2),),
                       reconnects=[(True, 0, 4)],
                       budgets=dict(common, sub=2, unsub=1 if q else 2, ack=1 if q else 2, tick=2),
                       lose_kinds=('done', 'lost')))
        out.append(Scn('pubsub-%s' % mode, profile='pubsub', mode=mode, init=CONNECTED,
                       reconnects=[(True, 0, 4)],
                       budgets=dict(common, pub=2, sub=1, unsub=0 if q else 1, ack=1, raw=0 if q else 1, inpub=1),
                       pub_qos=(1, 2) if q else (0, 1, 2), lose_kinds=('lost',), inpubs=((2, False, False, 9, 'short'),)))
        out.append(Scn('pub-ka-%s' % mode, profile='pub', mode=mode,
                       init=(('connect', 0, True, 3, 4), ('connack', 0, 0, False)), reconnects=[(True, 0, 4)],
                       budgets=dict(pub=2 if q else 3, ack=1 if q else 2, tick=3, lose=1, disconnect=1, rebuild=1, connect=1, connack=1),
                       pub_qos=(1, 2)))
    out.append(Scn('pub-reenter-errback', profile='pub', mode='async', init=CONNECTED, reconnects=[(True, 0, 4)],
                   reenter=('err:pub>pub',), windows=(1, 2), pub_qos=(1, 2),
                   budgets=dict(pub=2, ack=1, lose=1, disconnect=1, rebuild=1, connect=1, connack=1, setwin=1, tick=1)))
    # repeated and misplaced acknowledgements before the clean connection ends, then time passes
    out.append(Scn('pub-q2-dup-acks', profile='pub', mode='sync', init=CONNECTED, reconnects=[(True, 0, 4)], pub_qos=(2,),
                   budgets=dict(pub=1 if q else 2, ack=2, dack=1, misack=1, lose=1, rebuild=1, connect=1, connack=1, tick=3)))
    # a rebuilt protocol loses its transport before connect() is called on it
    out.append(Scn('pub-lost-before-connect', profile='pub', mode='async', init=CONNECTED + (('setwin', 0, 2),),
                   reconnects=[(True, 0, 4), (False, 0, 4)], lose_new=True, pub_qos=(1, 2),
                   budgets=dict(pub=2, ack=1, lose=2, rebuild=2, connect=1, connack=1, tick=1)))
    out.append(Scn('pub-queue-w1', profile='pub', mode='sync', init=CONNECTED, reconnects=[(True, 0, 4)],
                   budgets=dict(pub=4 if q else 5, ack=0 if q else 1, lose=1, disconnect=1, rebuild=1, connect=1, connack=1,
                                tick=0 if q else 1),
                   pub_qos=(0, 1) if q else (0, 1, 2), lose_kinds=('done',)))
    out.append(Scn('pubsub-connecting', profile='pubsub', mode='async', connects=[(True, 2, 4)],
                   reconnects=[(False, 0, 4), (True, 0, 4)],
                   budgets=dict(connect=2, connack=2, badconnack=1, reconn2=1, pub=2, tick=2, lose=1, rebuild=1, sub=1), pub_qos=(1,),
                   lose_kinds=('lost',)))
    return out


def run(ctx):
    ctx.rule = 'BFS over symbolic event histories; state = canonical object graph + request table + budgets'
    for scn in scenarios(ctx):
        ctx.explore(scn, Mon)
    ctx.assumptions = []
