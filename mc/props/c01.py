"""C01 -- packet codec round trip: decode(encode(x)) == x for every packet and field value."""
import itertools
import multiprocessing as mp
import os

from .. import codecgrid as g
from ..monitor import V
import mqtt.pdu as pdu

PROP = 'C01'


def _viol(ctx, sig, detail, case):
    ctx.violation({'kind': 'roundtrip', 'signature': sig, 'detail': detail, 'history': [case],
                   'scenario': {'name': 'enum'}})


def _len_range(args):
    lo, hi = args
    bad = []
    enc, dec = pdu.encodeLength, pdu.decodeLength
    for v in range(lo, hi):
        try:
            e = enc(v)
            ok = dec(e) == v and (1 <= len(e) <= 4)
        except Exception:      # noqa -- an exception of the code under test is a verdict, not a harness error
            ok = False
        if not ok:
            bad.append(v)
            if len(bad) > 3:
                break
    return hi - lo, bad


def check_u16(ctx):
    n = 0
    for v in range(65536):
        n += 1
        try:
            e = pdu.encode16Int(v)
            ok = pdu.decode16Int(e) == v and len(e) == 2 and bytes(pdu.encode16Int(v)) == bytes(e)
        except Exception:      # noqa
            e, ok = b'', False
        if not ok:
            _viol(ctx, 'u16-roundtrip', 'encode16Int/decode16Int(%d) -> %r' % (v, bytes(e)), ['u16', v])
            break
    return n, 65536


def check_lengths(ctx):
    if ctx.quick:
        ranges = [(0, 2 ** 21 + 400)]
        for b in (268435455,):
            ranges.append((b - 300, b + 1))
        step = 2 ** 17
    else:
        ranges = [(0, 268435456)]
        step = 2 ** 22
    tasks = []
    for lo, hi in ranges:
        for a in range(lo, hi, step):
            tasks.append((a, min(hi, a + step)))
    n = 0
    with mp.get_context('fork').Pool(min(16, os.cpu_count() or 1)) as pool:
        for k, bad in pool.imap_unordered(_len_range, tasks):
            n += k
            for v in bad[:1]:
                _viol(ctx, 'remaining-length-roundtrip', 'encodeLength/decodeLength(%d)' % v, ['len', v])
    return n, n


def _chars(args):
    lo, hi = args
    bad, n = [], 0
    for cp in range(lo, hi):
        if 0xD800 <= cp <= 0xDFFF:
            continue
        s = chr(cp)
        n += 1
        try:
            e = pdu.encodeString(s)
            d, rest = pdu.decodeString(e)
            ok = d == s and not len(rest) and bytes(e) == len(s.encode()).to_bytes(2, 'big') + s.encode()
        except Exception:      # noqa
            ok = False
        if not ok:
            bad.append(cp)
    return n, bad


def check_strings(ctx):
    n = 0
    with mp.get_context('fork').Pool(min(16, os.cpu_count() or 1)) as pool:
        for k, bad in pool.imap_unordered(_chars, [(a, min(0x110000, a + 0x4000)) for a in range(0, 0x110000, 0x4000)]):
            n += k
            for cp in bad[:1]:
                _viol(ctx, 'string-roundtrip/codepoint', 'U+%04X' % cp, ['char', cp])
    distinct = n
    for L in range(0, 3 if ctx.quick else 4):
        for t in itertools.product(g.ALPHA24, repeat=L):
            s = ''.join(t)
            n += 1
            try:
                e = pdu.encodeString(s)
                d, rest = pdu.decodeString(e + bytearray(b'\x00\x01'))
                ok = d == s and bytes(rest) == b'\x00\x01' and bytes(pdu.encodeString(s)) == bytes(e)
            except Exception:      # noqa
                ok = False
            if not ok:
                _viol(ctx, 'string-roundtrip/short', repr(s), ['str', s])
    for s in g.length_class_strings():
        n += 1
        try:
            e = pdu.encodeString(s)
            d, rest = pdu.decodeString(e)
            ok = d == s and not len(rest) and len(e) == 2 + len(s.encode())
        except Exception:      # noqa
            ok = False
        if not ok:
            _viol(ctx, 'string-roundtrip/length-class', 'byte length %d' % len(s.encode()), ['strlen', len(s.encode())])
    for s in ('a' * 65536, '€' * 21846, '\ud800', 'a\udfffb'):
        n += 1
        try:
            pdu.encodeString(s)
        except (ValueError, TypeError):
            continue
        except Exception:      # noqa
            pass
        _viol(ctx, 'string-not-refused', 'encodeString accepted %d chars / %r' % (len(s), s[:2]), ['strbad', len(s)])
    return n, distinct


def _packets(args):
    quick, shard, nshards = args
    n, bad, kinds = 0, [], set()
    for i, (name, f) in enumerate(g.packet_cases(quick)):
        if i % nshards != shard:
            continue
        n += 1
        try:
            raw = g.lib_encode(name, dict(f))
            raw2 = g.lib_encode(name, dict(f))
            o = g.lib_decode(name, raw)
        except Exception as e:     # noqa
            bad.append((name, _short(f), 'exception %s: %s' % (type(e).__name__, e)))
            continue
        if bytes(raw) != bytes(raw2):
            bad.append((name, _short(f), 'encoding twice gives different bytes'))
        exp = g.expected_after_decode(name, f)
        for k, v in exp.items():
            got = g.norm(getattr(o, k, '<missing>'))
            if got != g.norm(v):
                bad.append((name, _short(f), 'field %s: encoded %r decoded %r' % (k, _cut(v), _cut(got))))
                break
        kinds.add((name, len(raw) > 129, len(raw) > 16385, tuple(sorted(k for k, v in f.items() if v not in (None, False, 0, '')))))
    return n, bad, kinds


def _cut(v):
    r = repr(v)
    return r if len(r) < 80 else r[:40] + '...' + r[-20:]


def _short(f):
    return {k: (v if not isinstance(v, (str, bytes, bytearray, list)) or len(v) < 20 else '%s[%d]' % (type(v).__name__, len(v)))
            for k, v in f.items() if k != 'version'} | ({'version': f['version']['level']} if 'version' in f else {})


def check_packets(ctx):
    n, kinds = 0, set()
    nsh = 32
    with mp.get_context('fork').Pool(min(16, os.cpu_count() or 1)) as pool:
        for k, bad, kk in pool.imap_unordered(_packets, [(ctx.quick, i, nsh) for i in range(nsh)]):
            n += k
            kinds |= kk
            for (name, f, what) in bad:
                fld = what.split(':')[0]
                ctx.violation({'kind': 'roundtrip', 'signature': 'packet-roundtrip/%s/%s' % (name, fld.replace(' ', '-')),
                               'detail': '%s %r: %s' % (name, f, what), 'history': [[name, repr(f)]], 'scenario': {'name': 'enum'}})
    return n, len(kinds)


def run(ctx):
    ctx.rule = ('complete enumeration of: all 65536 16-bit values; remaining lengths (quick: 0..2^21 and the top boundary; '
                'thorough: all 268435456); every Unicode scalar value as a 1-char string, all strings up to length 2/3 over a '
                '24-symbol alphabet of UTF-8 class boundaries, every byte-length class; every packet class x flag '
                'combination x identifier/keepalive/text/payload grid; distinct = distinct values (primitives) or distinct '
                '(class, length class, set of non-default fields) (packets)')
    tot, dist = 0, 0
    for fn in (check_u16, check_lengths, check_strings, check_packets):
        n, d = fn(ctx)
        ctx.extra[fn.__name__] = n
        tot += n
        dist += d
    ctx.add_enum(tot, dist, [{'packet': 'PUBLISH', 'qos': 2, 'dup': True, 'retain': True, 'msgId': 65535, 'topic': '+/é/€', 'payload': 'bytearray(range(256))'},
                             {'string': 'U+10FFFF'}, {'remaining_length': 2097152}])
    ctx.executions += tot
    ctx.assumptions = ['fields that are not on the wire (will QoS/retain without a will) are not compared']
