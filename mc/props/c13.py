"""C13 -- settled requests and lost connections stay silent: no stray timers or writes."""
from ..monitor import Monitor, V, writes, CONNECTED, CONNECTED_P
from ..scen import Std

PROP = 'C13'

RETRY = ('_publishError', '_subscribeError', '_unsubscribeError', '_pubrelError')


class Mon(Monitor):
    stateless = True

    def step(self, w):
        out = []
        ev = w.hist[-1]
        # (c) no write on a transport whose loss has been reported; (d) nothing written for a settled request
        for ci, p, o in writes(w):
            if o[4]:
                out.append(V('write-after-loss', 'write-after-loss/%s/on-%s' % (p['type'], ev[0]),
                             '%s written on connection %d after its loss was reported' % (p['type'], ci)))
            if p.get('req') is not None and p['type'] in ('PUBLISH', 'PUBREL', 'SUBSCRIBE', 'UNSUBSCRIBE'):
                r = w.reqs[p['req']]
                if r.kind == 'pub' and r.qos == 0:
                    continue
                if r.fires and r.fires[0][0] < w.step:
                    out.append(V('write-for-settled', 'write-for-settled/%s/%s/on-%s' % (p['type'], r.fires[0][1], ev[0]),
                                 '%s for request %d written although its Deferred fired (%s) at step %d' % (
                                     p['type'], r.idx, r.fires[0][1], r.fires[0][0])))
        for o in w.new_obs():
            if o[0] == 'w' and o[4] and not o[5]:
                out.append(V('write-after-loss', 'write-after-loss/raw', 'bytes written after loss'))
        # (a) timers
        per_req = {}
        tm = w.timers()
        for (kind, ci, ri, dt) in tm:
            c = None if ci is None else w.conns[ci]
            if kind in ('onDisconnection', 'deferred-recorder'):
                continue
            if c is not None and c.lost and kind != 'connectError':
                out.append(V('timer', 'timer-of-lost-connection/%s' % kind,
                             'connection %d is lost but still owns a %s timer' % (ci, kind)))
            if ri is not None and kind != 'connectError':
                per_req[ri] = per_req.get(ri, 0) + 1
                r = w.reqs[ri]
                if not r.pending:
                    out.append(V('timer', 'timer-for-settled-request/%s' % kind,
                                 'request %d is settled but a %s timer is armed for it' % (ri, kind)))
        for ri, n in per_req.items():
            if n > 1:
                out.append(V('timer', 'two-timers-for-one-request/%s' % w.reqs[ri].kind,
                             'request %d is driven by %d retry timers' % (ri, n)))
            else:
                self.see('single-timer')
        # (b) connected, keepalive off, nothing outstanding => the connection owns no timer
        for a in range(w.naddr):
            c = w.conn(a)
            if c is None or w.phase(c) != 'connected' or c.keepalive:
                continue
            if any(r.addr == a and r.pending and r.kind in ('pub', 'sub', 'unsub') for r in w.reqs):
                continue
            own = [t for t in tm if t[1] == c.idx and t[0] not in ('onDisconnection',)]
            if own:
                out.append(V('timer', 'idle-connection-owns-timer/%s' % own[0][0],
                             'connected, keepalive off, nothing outstanding, but timers %r are scheduled' % (own,)))
            else:
                self.see('idle-no-timer')
        return out

    def at_end(self, w):
        out = []
        if not getattr(w, 'drain_complete', True):
            self.see('drain-capped-before-horizon')
            return out
        for (kind, ci, ri, dt) in w.timers():
            c = None if ci is None else w.conns[ci]
            if c is not None and c.lost:
                out.append(V('timer', 'timer-of-lost-connection-after-drain/%s' % kind,
                             'after the drain connection %d (lost) still owns a %s timer' % (ci, kind)))
        self.see('drained')
        return out

    def outcome(self, w):
        return tuple(sorted((t[0], t[1]) for t in w.timers()))


def scenarios(ctx):
    q = ctx.quick
    out = []
    common = dict(tick=2, lose=1, rebuild=1, connect=1, connack=1)
    out.append(Std('pub-clean', profile='pub', mode='async', init=CONNECTED + (('setwin', 0, 2),),
                   reconnects=[(True, 0, 4)], pub_qos=(1, 2),
                   budgets=dict(common, pub=2, ack=2, dack=1, disconnect=1)))
    # the identifier counter wraps while an exchange is still waiting for its PUBCOMP
    out.append(Std('pub-q2-wrap', profile='pub', mode='sync', init=CONNECTED + (('setwin', 0, 2),), pub_qos=(2,),
                   budgets=dict(pub=2, ack=3, setid=1, tick=3, disconnect=1)))
    # one factory, two addresses: the session handling of one address while the other has requests in flight
    for cleanA in (True, False):
        out.append(Std('two-addresses-%s' % ('clean' if cleanA else 'persist'), profile='pubsub', mode='async', naddr=2, pub_qos=(1, 2),
                       init=(('connect', 0, cleanA, 0, 4), ('connack', 0, 0, False), ('connect', 1, True, 0, 4), ('connack', 1, 0, False)),
                       connects=[(True, 0, 4)], reconnects=[(True, 0, 4)], budgets=dict(tick=3),
                       addr_budgets=[dict(pub=1, sub=1, ack=1, tick=3), dict(lose=1, rebuild=1, connect=1, connack=1, tick=3)]))
    out.append(Std('pub-lost-before-connect', profile='pub', mode='async', init=CONNECTED_P + (('setwin', 0, 2),), connects=[(False, 0, 4)],
                   reconnects=[(False, 0, 4), (True, 0, 4)], pub_qos=(1, 2), lose_new=True,
                   budgets=dict(pub=2, ack=1, tick=2, lose=2, rebuild=2, connect=1, connack=1, reconn2=1)))
    out.append(Std('pub-persist', profile='pub', mode='sync', init=CONNECTED_P, connects=[(False, 0, 4)],
                   reconnects=[(False, 0, 4), (True, 0, 4)], pub_qos=(1, 2),
                   budgets=dict(common, pub=2, ack=2, tick=3)))
    out.append(Std('pub-connecting', profile='pub', mode='sync', connects=[(True, 0, 4), (False, 0, 4)],
                   reconnects=[(False, 0, 4)], pub_qos=(1, 2),
                   budgets=dict(common, connect=2, connack=2, badconnack=1, pub=2, ack=2, tick=3)))
    out.append(Std('sub-clean', profile='sub', mode='async', init=CONNECTED + (('setwin', 0, 2),),
                   reconnects=[(True, 0, 4)],
                   budgets=dict(common, sub=1, unsub=1, ack=2, dack=1, disconnect=1, inpub=1, inrel=1),
                   inpubs=((2, False, False, 1, 'short'),), inrels=((1,),)))
    out.append(Std('pubsub-ka', profile='pubsub', mode='async',
                   init=(('connect', 0, True, 2, 4), ('connack', 0, 0, False)), reconnects=[(True, 2, 4)],
                   pub_qos=(1,), drain_horizon=20.0, drain_max_ticks=40,
                   budgets=dict(common, pub=1, sub=1, ack=1, tick=4, pingresp=2, disconnect=1)))
    return out


def run(ctx):
    ctx.rule = ('BFS over symbolic event histories; from every visited state the closing phase lets the broker answer '
                'everything and then drains the virtual clock (5000 s with keepalive off)')
    for scn in scenarios(ctx):
        ctx.explore(scn, Mon)
    ctx.assumptions = ['drain runs ties in default order', 'the "no timer" clause is per connection (DESIGN 6)']
