"""C08 -- unacknowledged packets are resent on every timer expiry, DUP set, same content."""
from ..monitor import Monitor, V, writes
from ..scen import Std

PROP = 'C08'

KINDS = {'PUBLISH': 'tx', 'SUBSCRIBE': 'tx', 'UNSUBSCRIBE': 'tx', 'PUBREL': 'rel_tx'}


def copies(r, ptype):
    return r.rel_tx if ptype == 'PUBREL' else r.tx


def expected_type(r):
    if r.kind == 'pub':
        return 'PUBREL' if r.rel_tx else 'PUBLISH'
    return 'SUBSCRIBE' if r.kind == 'sub' else 'UNSUBSCRIBE'


class Mon(Monitor):
    stateless = True

    def before_last(self, w, ev):
        # what the timer about to fire (if the last event is a tick) belongs to, judged BEFORE it runs
        self.exp = None
        if ev[0] == 'tick':
            tied = w.ties()
            if ev[1] < len(tied):
                kind, ci, ri = w.classify(tied[ev[1]])
                if ri is not None and kind != 'connectError' and ri >= 0:
                    r = w.reqs[ri]
                    c = None if ci is None else w.conns[ci]
                    if r.kind in ('pub', 'sub', 'unsub'):
                        self.exp = (ri, ci, expected_type(r), r.pending, c is not None and c.open and not c.lost and
                                    w.phase(c) == 'connected')

    def step(self, w):
        out = []
        ev = w.hist[-1]
        exp, self.exp = getattr(self, 'exp', None), None
        wr = writes(w)
        for ci, p, o in wr:
            t = p['type']
            if t not in KINDS or p.get('req') is None:
                continue
            r = w.reqs[p['req']]
            if t == 'PUBLISH' and not r.qos:
                continue
            cs = copies(r, t)
            k = self._index(cs, p, w, o)
            c = w.conns[ci]
            first = cs[0]
            if k == 0:
                if p['dup']:
                    out.append(V('dup', 'first-copy-with-dup/%s/v%d' % (t, c.level), '%s of request %d first sent with DUP' % (t, r.idx)))
                continue
            self.see('repeat/%s/v%d' % (t, c.level))
            # content
            if p['raw'][1:] != first[4][1:] or (p['raw'][0] & 0xF7) != (first[4][0] & 0xF7):
                out.append(V('content', 'repeat-differs/%s' % t, '%s of request %d repeated with different bytes' % (t, r.idx)))
            want_dup = True if t == 'PUBLISH' else (c.level == 3)
            if bool(p['dup']) != want_dup:
                out.append(V('dup', 'repeat-dup-%s/%s/v%d' % ('missing' if want_dup else 'set', t, c.level),
                             '%s repeat of request %d under protocol level %d carries DUP=%s' % (t, r.idx, c.level, p['dup'])))
            # cause: own timer expiry, or resumption at the CONNACK of a later connection
            prev = cs[k - 1]
            own_expiry = ev[0] == 'tick' and exp is not None and exp[0] == r.idx
            resumed = ev[0] in ('connack',) and c.connack_step == w.step and prev[1] < ci
            if not (own_expiry or resumed):
                out.append(V('cause', 'repeat-without-cause/%s/on-%s' % (t, ev[0]),
                             '%s of request %d written again in a step that is neither its timer expiry nor a session '
                             'resumption (%r)' % (t, r.idx, ev)))
            elif resumed:
                self.see('resumed/%s' % t)
            # timing on one connection
            if prev[1] == ci:
                gap = p_time(w) - prev[5]
                # the initial timeout in force when the request was made and when it was first sent differ only for a
                # message held back across a reconfiguration / rebuilt protocol: the smaller one is demanded (DESIGN 6)
                t0 = min(w.conns[first[1]].timeout, r.args.get('timeout_at_call', w.conns[first[1]].timeout))
                if gap < t0 - 1e-6:
                    out.append(V('gap', 'gap-below-initial-timeout/%s' % t,
                                 '%s of request %d repeated after %.3fs, initial timeout is %s' % (t, r.idx, gap, t0)))
                if t == 'PUBLISH' and k >= 2 and cs[k - 2][1] == ci:
                    g_prev = (prev[5] - cs[k - 2][5]) - cs[k - 2][6]
                    g_now = gap - prev[6]
                    if g_now < g_prev - 1e-6:
                        out.append(V('gap', 'publish-gaps-shrink', 'request %d: gaps (jitter removed) %.4f then %.4f' % (r.idx, g_prev, g_now)))
                    else:
                        self.see('gap-compared')
        # while the connection is up every transmitted, unacknowledged request is driven by exactly one retry timer
        tm = w.timers()
        for r in w.reqs:
            if r.kind not in ('pub', 'sub', 'unsub') or not r.pending or not r.tx or (r.kind == 'pub' and not r.qos):
                continue
            c = w.conn(r.addr)
            if c is None or c.lost or c.close_req is not None or w.phase(c) != 'connected':
                continue
            if not any(t[1] == c.idx for t in r.tx) and not any(t[1] == c.idx for t in r.rel_tx):
                continue          # carried over, not yet resumed on this connection
            nt = sum(1 for (kind, c2, r2, dt) in tm if r2 == r.idx and kind != 'connectError')
            if nt == 0 and not any(o[0] == 'exc' for o in w.new_obs()):
                out.append(V('norepeat', 'unacknowledged-packet-without-timer/%s/on-%s' % (expected_type(r), ev[0]),
                             'request %d is unacknowledged on a live connection but no retry timer is armed for it' % r.idx))
        # every expiry of a retry timer of an unacknowledged packet on a live connection produces one copy
        if ev[0] == 'tick' and exp is not None:
            ri, ci, t, was_pending, conn_up = exp
            r = w.reqs[ri]
            excs = [o for o in w.new_obs() if o[0] == 'exc']
            if excs:
                out.append(V('timer-exc', 'timer-exception/%s/%s' % (t, excs[0][3]),
                             'retry timer of request %d raised %s: %s' % (ri, excs[0][3], excs[0][4])))
            elif was_pending and conn_up:
                n = sum(1 for ci2, p, o in wr if ci2 == ci and p['type'] == t and p.get('req') == ri)
                if n != 1:
                    out.append(V('norepeat', 'expiry-produced-%d-copies/%s' % (n, t),
                                 'retry timer of request %d expired, %d copies of its %s written' % (ri, n, t)))
                else:
                    self.see('expiry-repeat/%s' % t)
                nt = sum(1 for (kind, c2, r2, dt) in w.timers() if r2 == ri and kind != 'connectError')
                if r.pending and not w.conns[ci].lost and nt != 1:
                    out.append(V('norepeat', 'expiry-left-%d-timers/%s' % (nt, t),
                                 'after the expiry %d retry timers are armed for request %d' % (nt, ri)))
        return out

    def _index(self, cs, p, w, o):
        """Index of this very copy in the request's copy list (copies of this step are at the tail)."""
        n_before = sum(1 for x in cs if x[0] < w.step)
        k = 0
        for x in w.new_obs():
            if x[0] != 'w':
                continue
            for q in x[5]:
                if q is p:
                    return n_before + k
                if q['type'] == p['type'] and q.get('req') == p.get('req'):
                    k += 1
        return n_before + k

    def outcome(self, w):
        return tuple((r.kind, len(r.tx), len(r.rel_tx)) for r in w.reqs if r.kind != 'connect')


def p_time(w):
    return w.clock.rightNow


def scenarios(ctx):
    q = ctx.quick
    out = []
    grid = []
    versions = (3, 4)
    if q:
        grid = [(3, 1, 10000, 2, 'short'), (4, 4, 1, 1, 'short'), (3, 1024, 100, 3, 'big'), (4, 1, 100, 3, 'huge')]
    else:
        # pairwise cover of version x timeout x (bandwidth, factor) x payload (the full product is 54 configurations)
        grid = [(3, 1, 10000, 2, 'short'), (4, 1, 1, 1, 'big'), (3, 1, 100, 3, 'huge'),
                (4, 4, 10000, 2, 'big'), (3, 4, 1, 1, 'huge'), (4, 4, 100, 3, 'short'),
                (3, 1024, 10000, 2, 'huge'), (4, 1024, 1, 1, 'short'), (3, 1024, 100, 3, 'big'),
                (4, 1, 10000, 2, 'huge'), (3, 4, 100, 3, 'short'), (4, 1024, 1, 1, 'big')]
    for (v, t, b, f, pk) in grid:
        init = (('connect', 0, False, 0, v), ('connack', 0, 0, False), ('settimeout', 0, t), ('setbw', 0, b, f),
                ('setwin', 0, 2))
        name = 'v%d-t%d-bw%d-f%d-%s' % (v, t, b, f, pk)
        out.append(Pub('pub-' + name, pk, profile='pub', init=init, connects=[(False, 0, v)], reconnects=[(False, 0, v)],
                       pub_qos=(1, 2), jits=(0.75, 0.0),
                       budgets=dict(pub=2, ack=1 if q else 2, dack=1, tick=3 if q else 4, jit=1, lose=1, rebuild=1, connect=1,
                                    connack=1, setwin=0), windows=(1, 3)))
        out.append(Std('sub-' + name, profile='sub', init=init[:3] + (('setwin', 0, 2),), connects=[(False, 0, v)],
                       jits=(0.75, 0.0),
                       budgets=dict(sub=1, unsub=1, ack=1, tick=4 if q else 6, jit=1, lose=1, rebuild=1, connect=1, connack=1),
                       reconnects=[(False, 0, v)]))
    for v in (3, 4):
        out.append(Std('pub-v%d-heldback' % v, profile='pub', closing=False,
                       init=(('connect', 0, False, 0, v), ('connack', 0, 0, False)), connects=[(False, 0, v)],
                       reconnects=[(False, 0, v)], pub_qos=(1, 2), windows=(1, 2, 3), pub_retain=(True,), bandwidths=((1, 1), (100000, 4)),
                       budgets=dict(pub=3, ack=1, misack=1, setbw=1, tick=2 if q else 3, setwin=1, lose=0 if q else 1,
                                    rebuild=0 if q else 1, connect=0 if q else 1, connack=0 if q else 1)))
    # the protocol version changes between two connections of one persistent session (DUP on repeats follows the connection)
    for v0, v1 in ((3, 4), (4, 3)):
        out.append(Std('pubsub-v%d-to-v%d' % (v0, v1), profile='pubsub', init=(('connect', 0, False, 0, v0), ('connack', 0, 0, False)),
                       connects=[(False, 0, v0)], reconnects=[(False, 0, v1)], pub_qos=(2,), closing=False,
                       budgets=dict(pub=1, sub=1, unsub=1, ack=1, tick=2 if q else 4, lose=1, rebuild=1, connect=1, connack=1)))
    out.append(Std('two-addresses', profile='pubsub', naddr=2, closing=False, pub_qos=(1, 2),
                   init=(('connect', 0, True, 0, 4), ('connack', 0, 0, False), ('connect', 1, False, 0, 3), ('connack', 1, 0, False)),
                   reconnects=[(True, 0, 4)], budgets=dict(tick=2),
                   addr_budgets=[dict(pub=1, lose=1, disconnect=1, tick=2), dict(pub=1, sub=1 if not q else 0, ack=1 if not q else 0, tick=2)]))
    return out


class Pub(Std):
    def __init__(self, name, pkind, **kw):
        Std.__init__(self, name, **kw)
        self.pkind = pkind

    def enabled(self, w):
        out = []
        for e in Std.enabled(self, w):
            if e[0] == 'pub' and self.pkind != 'short':
                e = e + (False, self.pkind)
            out.append(e)
        return out


def run(ctx):
    ctx.rule = ('BFS over symbolic event histories per configuration (version x timeout x bandwidth/factor x payload); '
                'ticks up to k consecutive expiries interleaved with acks, jitter changes and a persistent reconnect')
    for scn in scenarios(ctx):
        ctx.explore(scn, Mon, closing=False)
    ctx.assumptions = ['timeout/bandwidth are configured before requests are issued', 'factor >= 1']
