"""C19 -- connections to different broker addresses through one factory do not interfere."""
from ..monitor import Monitor, V
from ..scen import Std
from ..world import World, REACTOR, Jitter, canon_world, reqkey

PROP = 'C19'


def project(w, a):
    """The observable behaviour on address a: writes, Deferred outcomes, callbacks, closes, losses, own timers.
    Identifiers issued by the client are replaced by the (per-address) number of the request that carries them, so the
    comparison does not depend on which numbers the shared counter happens to hand out; identifiers chosen by the
    broker (inbound PUBLISH/PUBREL and the acknowledgements echoing them) are left as they are."""
    conns = {c.idx: i for i, c in enumerate([c for c in w.conns if c.addr == a])}
    reqs = {r.idx: i for i, r in enumerate([r for r in w.reqs if r.addr == a])}

    def owner(mid, upto):
        """The request of this address that carried identifier mid most recently (among those made up to obs index upto)."""
        best = None
        for r in w.reqs:
            if r.addr == a and r.msgId == mid and r.kind in ('pub', 'sub', 'unsub') and r.idx in made[upto]:
                best = r
        return ('q', reqs[best.idx]) if best is not None else ('unknown-id',)
    # which requests exist at each point of the log
    made, cur = [], set()
    for o in w.obs:
        if o[0] == 'call' and o[1] >= 0:
            cur = cur | {o[1]}
        made.append(cur)
    out = []
    from .. import refcodec as rc
    for n, o in enumerate(w.obs):
        k = o[0]
        if k == 'w' and o[1] in conns:
            pk = []
            for p in o[5]:
                if p['type'] in ('PUBACK', 'PUBREC', 'PUBCOMP'):     # echo the broker's identifier space
                    pk.append((p['type'], ('b', p.get('msgId'))))
                    continue
                tok = ('q', reqs[p['req']]) if p.get('req') is not None and p['req'] in reqs else (None if p.get('msgId') is None else owner(p['msgId'], n))
                pk.append((p['type'], tok, p.get('dup'), p.get('qos'),
                           p.get('topic') if p['type'] == 'PUBLISH' else tuple(map(tuple, p['topics'])) if p['type'] == 'SUBSCRIBE' else tuple(p.get('topics') or ())))
            out.append(('w', conns[o[1]], tuple(pk), o[3], o[4], o[6]))
        elif k == 'rx' and o[1] in conns:
            try:
                fr, _ = rc.split_stream(o[2])
                for raw in fr:
                    d = rc.decode(raw, strict=False)
                    if d['type'] in ('PUBLISH', 'PUBREL'):
                        out.append(('rx', conns[o[1]], d['type'], ('b', d.get('msgId'))))
                    elif d.get('msgId') is not None:
                        out.append(('rx', conns[o[1]], d['type'], owner(d['msgId'], n)))
                    else:
                        out.append(('rx', conns[o[1]], d['type'], None))
            except rc.RefError:
                out.append(('rx', conns[o[1]], o[2]))
        elif k in ('call',) and o[3] in conns and o[1] >= 0:
            out.append(('call', reqs[o[1]], o[2]))
        elif k == 'ret' and o[1] >= 0 and w.reqs[o[1]].addr == a:
            out.append(('ret', reqs[o[1]], o[2], ('q', reqs[o[1]]) if o[2] == 'deferred' and isinstance(o[3], int) else o[3]))
        elif k == 'fire' and o[1] >= 0 and w.reqs[o[1]].addr == a:
            r = w.reqs[o[1]]
            val = o[3]
            if o[2] == 'ok' and r.kind in ('pub', 'unsub') and isinstance(val, int):
                val = ('q', reqs[r.idx]) if val == r.msgId else ('other-id', val)
            out.append(('fire', reqs[o[1]], o[2], val, o[4]))
        elif k == 'cb' and o[2] in conns:
            f = o[3]
            if o[1] == 'onPublish':
                f = f[:5] + (('b', f[5]),)
            out.append(('cb', o[1], conns[o[2]], f))
        elif k in ('close', 'lost', 'lostdone', 'build') and o[1] in conns:
            out.append((k, conns[o[1]]) + tuple(o[2:3]))
        elif k == 'exc' and (o[2] in conns):
            out.append(('exc', o[1], conns[o[2]], o[3]))
        elif k == 'timer' and o[2] in conns:
            out.append(('timer', o[1], conns[o[2]], None if o[3] is None else reqs.get(o[3]), o[4]))
    timers = sorted((t[0], conns[t[1]], None if t[2] is None else reqs.get(t[2]), t[3]) for t in w.timers() if t[1] in conns)
    return out, timers


class Mon(Monitor):
    stateless = True

    def __init__(self, w, scn):
        Monitor.__init__(self, w, scn)
        self.shadow = None

    def step(self, w):
        out = []
        # the same history with one factory per address, on its own virtual clock
        saved = (REACTOR.clock, Jitter.value, Jitter.draws)
        try:
            cfg = dict(w.cfg)
            cfg['split'] = True
            sh = World(cfg)
            for ev in w.hist:
                sh.apply(ev)
        finally:
            REACTOR.clock, Jitter.value, Jitter.draws = saved
        self.shadow = sh
        for a in range(w.naddr):
            p1, t1 = project(w, a)
            p2, t2 = project(sh, a)
            if p1 != p2:
                i = 0
                while i < min(len(p1), len(p2)) and p1[i] == p2[i]:
                    i += 1
                d1 = p1[i] if i < len(p1) else None
                d2 = p2[i] if i < len(p2) else None
                out.append(V('interference', 'behaviour-differs/addr%d/%s' % (a, (d1 or d2)[0]),
                             'address %d behaves differently when the other address shares the factory: shared %r, alone %r '
                             '(after %r)' % (a, d1, d2, w.hist[-1])))
            elif t1 != t2:
                out.append(V('interference', 'timers-differ/addr%d' % a, 'shared %r, alone %r' % (t1, t2)))
            else:
                self.see('compared')
        # identifiers never collide on the shared factory
        for o in w.new_obs():
            if o[0] == 'ret' and o[1] >= 0 and o[2] == 'deferred' and isinstance(o[3], int):
                r = w.reqs[o[1]]
                for e in w.reqs:
                    if e is not r and e.msgId == r.msgId and e.pending and e.kind in ('pub', 'sub', 'unsub'):
                        out.append(V('ids', 'identifier-collision/%s' % ('other-address' if e.addr != r.addr else 'same-address'),
                                     'request %d got identifier %d still carried by request %d' % (r.idx, r.msgId, e.idx)))
                if any(e.addr != r.addr for e in w.reqs if e.msgId):
                    self.see('ids-across-addresses')
        return out

    def key(self, w):
        if self.shadow is None or len(self.shadow.hist) != len(w.hist):
            return None
        return (canon_world(self.shadow), reqkey(self.shadow))

    def outcome(self, w):
        return tuple((r.addr, r.kind, r.fires[0][1] if r.fires else None) for r in w.reqs)


BOTH = (('connect', 0, False, 0, 4), ('connack', 0, 0, False), ('connect', 1, True, 0, 3), ('connack', 1, 0, False))


def scenarios(ctx):
    q = ctx.quick
    out = []
    # S1: queues and windows (one side has a message held back while the other side refills its window)
    out.append(Std('queues', profile='pub', naddr=2, init=BOTH, closing=False, pub_qos=(1, 2) if not q else (1,),
                   budgets=dict(tick=1, setid=1),
                   addr_budgets=[dict(pub=2, ack=1 if q else 2, tick=1, setid=1), dict(pub=2, ack=1, tick=1)]))
    # S2: session state: one side loses its connection and reconnects (persistent or clean) while the other is mid-exchange
    A = dict(pub=2, ack=1 if not q else 0, lose=1, rebuild=1, connect=1, connack=1, tick=1 if not q else 0)
    B = dict(pub=1, sub=1 if not q else 0, ack=1 if not q else 0, tick=1 if not q else 0)
    out.append(Std('A-reconnects-B-busy', profile='pubsub', naddr=2, init=BOTH, closing=False, pub_qos=(1, 2),
                   connects=[(False, 0, 4)], reconnects=[(False, 0, 4), (True, 0, 4)],
                   budgets=dict(tick=1), addr_budgets=[dict(A, pub=1, ack=1, tick=1), dict(B, ack=1, tick=1)]))
    # identifiers of one address straddling the wrap because of what the other address consumed in between
    out.append(Std('wrap-between', profile='pub', naddr=2, init=BOTH + (('setwin', 0, 3),), closing=False, pub_qos=(1,),
                   connects=[(False, 0, 4)], reconnects=[(False, 0, 4)], budgets=dict(setid=1),
                   addr_budgets=[dict(pub=2, lose=1, rebuild=1, connect=1, connack=1), dict(pub=2)]))
    A2 = dict(pub=1, sub=1, ack=1, tick=1, setwin=1 if not q else 0)
    B2 = dict(pub=1, ack=1, lose=1, rebuild=1, connect=1, connack=1, unsub=1 if not q else 0, tick=1)
    out.append(Std('B-reconnects-A-busy', profile='pubsub', naddr=2, init=BOTH + (('setwin', 1, 2),), closing=False,
                   pub_qos=(2,), windows=(2,), connects=[(True, 0, 3)], reconnects=[(True, 0, 3)],
                   budgets=dict(tick=1), addr_budgets=[A2, B2]))
    # B's rebuilt protocol loses its transport before connect() is called on it, while A is mid-exchange
    out.append(Std('B-lost-before-connect-A-busy', profile='pubsub', naddr=2, init=BOTH, closing=False, pub_qos=(1, 2),
                   connects=[(True, 0, 3)], reconnects=[(True, 0, 3)], lose_new=True, budgets=dict(tick=1),
                   addr_budgets=[dict(pub=1, ack=1, tick=1), dict(pub=1, lose=2, rebuild=2, connect=1, connack=1, reconn2=1, tick=1)]))
    # S3: subscriber side: same inbound identifiers on both addresses, subscribe windows
    S = dict(sub=1, unsub=1 if not q else 0, ack=1, inpub=1, inrel=1, lose=1 if not q else 0, rebuild=1 if not q else 0,
             connect=1 if not q else 0, connack=1 if not q else 0, tick=1 if not q else 0)
    out.append(Std('subscribers', profile='sub', naddr=2, init=BOTH, closing=False,
                   inpubs=((2, False, False, 1, 'short'),), inrels=((1,),),
                   connects=[(False, 0, 4)], reconnects=[(False, 0, 4)],
                   budgets=dict(tick=1), addr_budgets=[S, dict(sub=1, ack=1, inpub=1, inrel=1, tick=1 if not q else 0)]))
    CLEAN = (('connect', 0, True, 0, 4), ('connack', 0, 0, False), ('connect', 1, True, 0, 4), ('connack', 1, 0, False))
    out.append(Std('A-clean-loses', profile='pubsub', naddr=2, init=CLEAN, closing=False, pub_qos=(1, 2),
                   reconnects=[(True, 0, 4), (False, 0, 4)], budgets=dict(tick=1),
                   addr_budgets=[dict(pub=1, sub=1, ack=1, lose=1, rebuild=1, connect=1, connack=1, tick=1),
                                 dict(pub=1, ack=1, tick=1, lose=0 if q else 1, rebuild=0 if q else 1)]))
    # S4: keepalive machinery of the two connections (one broker silent, the other answering)
    KA = (('connect', 0, True, 2, 4), ('connack', 0, 0, False), ('connect', 1, True, 2, 4), ('connack', 1, 0, False))
    out.append(Std('keepalive', profile='pub', naddr=2, init=KA, closing=False, pub_qos=(1,),
                   connects=[(True, 2, 4)], reconnects=[(True, 2, 4), (True, 0, 4)],
                   budgets=dict(tick=4 if q else 6),
                   addr_budgets=[dict(pingresp=1, tick=4 if q else 6, lose=1, rebuild=1, connect=1, connack=1),
                                 dict(pingresp=2, tick=4 if q else 6, pub=0 if q else 1)]))
    if not q:
        out.append(Std('both-from-scratch', profile='pub', naddr=2, closing=False, pub_qos=(1,),
                       connects=[(True, 0, 4)], budgets=dict(tick=1),
                       addr_budgets=[dict(connect=1, connack=1, pub=2, ack=1, tick=1), dict(connect=1, connack=1, pub=2, ack=1, tick=1)]))
    return out


def run(ctx):
    ctx.rule = ('BFS over the product of two per-address alphabets on one shared factory; every history is re-executed '
                'with one factory per address and the per-address projections are compared after every step')
    for scn in scenarios(ctx):
        ctx.explore(scn, Mon, closing=False)
    ctx.assumptions = ['identifiers are compared after renaming by order of first use per address']
