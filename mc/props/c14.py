"""C14 -- operations are honoured only in the states and profiles that allow them."""
from .. import refcodec as rc
from ..monitor import Monitor, V, writes
from ..scen import Std
from ..world import canon_world, IN_TOPICS, PAYLOADS

PROP = 'C14'

BELONGS = {   # packet type -> (phase it belongs to, profiles)
    'CONNACK': ('connecting', ('pub', 'sub', 'pubsub')),
    'PINGRESP': ('connected', ('pub', 'sub', 'pubsub')),
    'PUBLISH': ('connected', ('sub', 'pubsub')),
    'PUBREL': ('connected', ('sub', 'pubsub')),
    'SUBACK': ('connected', ('sub', 'pubsub')),
    'UNSUBACK': ('connected', ('sub', 'pubsub')),
    'PUBACK': ('connected', ('pub', 'pubsub')),
    'PUBREC': ('connected', ('pub', 'pubsub')),
    'PUBCOMP': ('connected', ('pub', 'pubsub')),
}


def masked_canon(w):
    """Canonical state with the identifier counter masked: a refused call may burn an identifier (the statement
    does not mention the counter; same reading as C20)."""
    ids = [f.id for f in w.factories]
    for f in w.factories:
        f.id = -1
    try:
        return canon_world(w)
    finally:
        for f, i in zip(w.factories, ids):
            f.id = i


def phase_of(w, c):
    if c.lost:
        return 'lost'
    if c.close_req is not None:
        return 'closing-' + c.phase
    return c.phase


class Mon(Monitor):
    stateless = True

    def before_last(self, w, ev):
        self.prev = None
        if ev[0] == 'probe':
            c = w.conn(ev[2])
            self.prev = (masked_canon(w), phase_of(w, c), [r.pending for r in w.reqs])

    def step(self, w):
        out = []
        ev = w.hist[-1]
        prev, self.prev = getattr(self, 'prev', None), None
        for r in w.calls:
            if r.kind == 'disconnect' and r.call_step == w.step and r.call_phase == 'connected' and r.ret == 'raise' and \
                    r.exc != 'MQTTStateError':
                c = w.conns[r.conn]
                if c.close_req is None or c.close_step == w.step:
                    out.append(V('allow', 'allowed-op-raised/disconnect/%s' % r.exc,
                                 'disconnect() while connected raised %s' % r.exc))
        if ev[0] != 'probe' or prev is None:
            return out
        canon0, ph, pend0 = prev
        inner = ev[1:]
        c = w.conn(inner[1])
        new = w.new_obs()
        wrote = [p['type'] for ci, p, o in writes(w)]
        changed = masked_canon(w) != canon0
        prof = w.profile
        tag = '%s/%s' % (prof, ph)
        if inner[0] in ('connect', 'pub', 'sub', 'unsub', 'disconnect'):
            op = inner[0]
            r = w.reqs[-1] if op != 'disconnect' else w.calls[-1]
            if op == 'connect':
                allowed = ph == 'new'
                dontcare = ph in ('lost', 'refused', 'closing-refused', 'closing-connecting', 'closing-new')
            elif op == 'pub':
                allowed = prof in ('pub', 'pubsub') and ph in ('connecting', 'connected')
                dontcare = prof in ('pub', 'pubsub') and ph in ('closing-connecting', 'closing-connected')
            elif op in ('sub', 'unsub'):
                allowed = prof in ('sub', 'pubsub') and ph == 'connected'
                dontcare = prof in ('sub', 'pubsub') and ph == 'closing-connected'
            else:
                allowed = ph == 'connected'
                dontcare = ph == 'closing-connected'
            if op == 'disconnect':
                refused = r.ret == 'raise'
                how = r.exc
            else:
                refused = r.ret != 'deferred' or (r.failed and r.fires[0][0] == w.step)
                how = r.exc if r.ret != 'deferred' else (r.fires[0][2] if r.fires else None)
            if dontcare:
                if refused and (wrote or changed):
                    out.append(V('effect', 'refused-op-had-effect/%s/%s' % (op, tag), 'wrote %r, state changed %r' % (wrote, changed)))
                self.see('dontcare')
                return out
            if allowed:
                if refused and how != 'MQTTStateError':
                    self.see('refused-for-another-reason/%s' % how)      # e.g. window full: not a matter of state
                elif refused:
                    out.append(V('allow', 'allowed-op-refused/%s/%s/%s' % (op, tag, how), '%s() in phase %s of profile %s refused with %s' % (op, ph, prof, how)))
                else:
                    self.see('honoured/%s' % op)
                    need = {'connect': 'CONNECT', 'disconnect': 'DISCONNECT', 'sub': 'SUBSCRIBE', 'unsub': 'UNSUBSCRIBE'}.get(op)
                    if need and need not in wrote:
                        out.append(V('allow', 'allowed-op-wrote-nothing/%s/%s' % (op, tag), ''))
            else:
                if not refused:
                    out.append(V('deny', 'disallowed-op-honoured/%s/%s' % (op, tag),
                                 '%s() in phase %s of profile %s was not refused (wrote %r)' % (op, ph, prof, wrote)))
                else:
                    if how != 'MQTTStateError':
                        out.append(V('deny', 'disallowed-op-failed-with/%s/%s/%s' % (op, tag, how), ''))
                    if op != 'disconnect' and r.ret != 'deferred':
                        out.append(V('deny', 'disallowed-op-raised/%s/%s' % (op, tag), '%s() raised instead of returning a failed Deferred' % op))
                    if wrote or changed:
                        out.append(V('effect', 'refused-op-had-effect/%s/%s' % (op, tag), 'wrote %r, state changed %r' % (wrote, changed)))
                    else:
                        self.see('refused/%s' % op)
        elif inner[0] == 'raw':
            ptype = rc.NAMES[inner[2][0] >> 4]
            want_phase, profs = BELONGS[ptype]
            belongs = ph == want_phase and prof in profs
            if belongs or ph.startswith('closing'):
                self.see('belongs')
                return out
            effects = []
            if wrote:
                effects.append('wrote %r' % wrote)
            if changed:
                effects.append('state changed')
            for o in new:
                if o[0] in ('cb', 'fire', 'close', 'exc', 'lost'):
                    effects.append(repr(o[:4]))
            if effects:
                out.append(V('packet', 'foreign-packet-had-effect/%s/%s' % (ptype, tag), '; '.join(effects)))
            else:
                self.see('ignored/%s' % ptype)
        return out

    def outcome(self, w):
        c = w.conn(0)
        return (w.profile, phase_of(w, c))


class Scn(Std):
    def enabled(self, w):
        if w.hist and w.hist[-1][0] == 'probe':
            return []
        out = Std.enabled(self, w)
        for a in self.addrs:
            c = w.conn(a)
            if c is None:
                continue
            for inner in (('connect', a, True, 0, 4), ('pub', a, 0), ('pub', a, 1), ('sub', a, 'str'), ('unsub', a, 'str'),
                          ('disconnect', a)):
                out.append(('probe',) + inner)
            if not c.lost and c.close_req is None:
                ids = [r.msgId for r in w.reqs if r.addr == a and r.pending and r.msgId] or []
                for mid in (ids[:2] + [77]):
                    for t in ('PUBACK', 'PUBREC', 'PUBREL', 'PUBCOMP', 'UNSUBACK'):
                        out.append(('probe', 'raw', a, rc.enc_ack(t, mid)))
                    out.append(('probe', 'raw', a, rc.enc_suback(mid, [1])))
                out.append(('probe', 'raw', a, rc.enc_connack(False, 0)))
                out.append(('probe', 'raw', a, rc.enc_connack(True, 5)))
                out.append(('probe', 'raw', a, rc.enc_pingresp()))
                for q in (0, 1, 2):
                    out.append(('probe', 'raw', a, rc.enc_publish('in/a', b'x', q, False, False, 9 if q else None)))
        return out

    def klass(self, ev):
        return 'probe' if ev[0] == 'probe' else Std.klass(self, ev)


def scenarios(ctx):
    q = ctx.quick
    out = []
    for profile in ('pub', 'sub', 'pubsub'):
        for mode in ('sync', 'async'):
            out.append(Scn('%s-%s' % (profile, mode), profile=profile, mode=mode, closing=False,
                           connects=[(True, 0, 4), (False, 2, 3)], reconnects=[(True, 0, 4)], pub_qos=(1, 2),
                           inpubs=((2, False, False, 9, 'short'),),
                           budgets=dict(connect=2, connack=1, badconnack=1, pub=1, sub=1, unsub=1 if not q else 0, ack=1,
                                        lose=1, rebuild=1, disconnect=1, tick=1 if q else 2, inpub=1)))
    out.append(Scn('pubsub-lost-before-connect', profile='pubsub', mode='async', closing=False, lose_new=True,
                   connects=[(True, 0, 4), (False, 2, 3)], reconnects=[(True, 0, 4)], pub_qos=(1,),
                   budgets=dict(connect=1, connack=1, reconn2=1, pub=1, sub=1, lose=2, rebuild=1, tick=1)))
    out.append(Std('reenter-ack-disconnect', profile='pub', mode='async', init=(('connect', 0, True, 0, 4), ('connack', 0, 0, False)),
                   reenter=('ok:pub>disconnect',), pub_qos=(1, 2), closing=False, budgets=dict(pub=2, ack=3, tick=1)))
    return out


def run(ctx):
    ctx.rule = ('BFS reaches every (profile x phase) with and without pending requests; in every reached state every '
                'API operation and every broker packet type is probed one step ahead on a fresh replay')
    for scn in scenarios(ctx):
        ctx.explore(scn, Mon, closing=False)
    ctx.assumptions = ['connect() on an idle-again protocol and operations after a close request may be honoured or refused']
