"""C16 -- malformed or unexpected input is contained: no crash, no unjustified effect."""
import itertools
import multiprocessing as mp
import os
import time

from .. import refcodec as rc
from ..monitor import V
from ..world import World

PROP = 'C16'

BASES = {
    'fresh': (),
    'connecting': (('connect', 0, True, 0, 4),),
    'idle': (('connect', 0, True, 0, 4), ('connack', 0, 0, False)),
    # one pending request of each kind, a PUBREL in flight, a stored inbound QoS 2 message, keepalive ping outstanding
    'busy': (('connect', 0, True, 5, 4), ('connack', 0, 0, False), ('setwin', 0, 3),
             ('pub', 0, 1), ('pub', 0, 2), ('ack', 0, 'PUBREC', ('r', 2)), ('pub', 0, 2),
             ('sub', 0, 'str'), ('unsub', 0, 'str'), ('inpub', 0, 2, False, False, 9, 'short')),
    # CONNECTING on a rebuilt protocol while a persistent session is carried over (alarms cleared, not yet resumed)
    'reconnecting-session': (('connect', 0, False, 0, 4), ('connack', 0, 0, True), ('setwin', 0, 3), ('pub', 0, 1), ('pub', 0, 2),
                             ('ack', 0, 'PUBREC', ('r', 2)), ('pub', 0, 2), ('sub', 0, 'str'), ('lose', 0, 'lost'), ('rebuild', 0),
                             ('connect', 0, False, 0, 4), ('pub', 0, 1)),
    'busy-v31-persist': (('connect', 0, False, 0, 3), ('connack', 0, 0, True), ('setwin', 0, 2),
                         ('pub', 0, 1), ('pub', 0, 2), ('sub', 0, 'list'), ('inpub', 0, 2, True, True, 9, 'nonascii')),
}


def build_base(profile, mode, base):
    w = World(dict(profile=profile, mode=mode))
    for ev in BASES[base]:
        if ev[0] == 'pub' and profile == 'sub':
            continue
        if ev[0] in ('sub', 'unsub', 'inpub') and profile == 'pub':
            continue
        if ev[0] == 'ack' and profile == 'sub':
            continue
        try:
            w.apply(ev)
        except Exception as e:      # noqa
            from ..explorer import PrefixBroken
            raise PrefixBroken('base %s/%s/%s: scripted event %r failed with %s: %s' % (profile, mode, base, ev, type(e).__name__, e))
    return w


def frames(data):
    """Structurally well-formed packets contained in the input, as the reference frames it."""
    out = []
    off, n = 0, len(data)
    while off < n:
        if n - off < 2:
            break
        try:
            rl, ll = rc.dec_len(data, off + 1)
        except rc.RefError:
            break
        end = off + 1 + ll + rl
        if end > n:
            break
        raw = data[off:end]
        off = end
        try:
            out.append(rc.decode(raw, strict=False))
        except rc.RefError:
            out.append(None)
    return out


def judge(w, data, step0_reqs):
    """Violations for the injection step (the World has just applied ('raw', 0, data))."""
    v = []
    fs = [f for f in frames(data) if f is not None]
    new = w.new_obs()
    c = w.conn(0)
    for o in new:
        if o[0] == 'exc':
            v.append(V('exc', 'exception/%s/%s' % (o[1], o[3]), '%s: %s' % (o[3], o[4])))
    # onPublish must repeat a PUBLISH frame of the input, or a stored message released by a PUBREL frame
    stored = dict(step0_reqs['stored'])
    pub_ok = []
    for f in fs:
        if f['type'] == 'PUBLISH':
            fld = (f['topic'], bytes(f['payload']), f['qos'], bool(f['dup']), bool(f['retain']), f['msgId'])
            if f['qos'] in (0, 1):
                pub_ok.append(fld)
            elif f['qos'] == 2:
                stored.setdefault(f['msgId'], []).append(fld)
        elif f['type'] == 'PUBREL' and f['msgId'] in stored:
            pub_ok.extend(stored.pop(f['msgId']))
    for o in new:
        if o[0] == 'cb' and o[1] == 'onPublish':
            if o[3] in pub_ok:
                pub_ok.remove(o[3])
            else:
                v.append(V('effect', 'unjustified-onPublish', 'onPublish%r not justified by any well-formed frame in %s' % (o[3], data.hex())))
        elif o[0] == 'cb' and o[1] == 'onMqttConnectionMade':
            if not (step0_reqs['phase'] == 'connecting' and any(f['type'] == 'CONNACK' and f['rc'] == 0 for f in fs)):
                v.append(V('effect', 'unjustified-onMqttConnectionMade', data.hex()))
        elif o[0] == 'fire' and o[2] == 'ok' and o[1] >= 0:
            r = w.reqs[o[1]]
            if r.kind == 'connect':
                ok = step0_reqs['phase'] == 'connecting' and any(f['type'] == 'CONNACK' and f['rc'] == 0 for f in fs)
            elif r.kind == 'pub' and r.qos == 1:
                ok = any(f['type'] == 'PUBACK' and f['msgId'] == r.msgId for f in fs)
            elif r.kind == 'pub' and r.qos == 2:
                recd = r.idx in step0_reqs['pubrec'] or any(f['type'] == 'PUBREC' and f['msgId'] == r.msgId for f in fs)
                ok = recd and any(f['type'] == 'PUBCOMP' and f['msgId'] == r.msgId for f in fs)
            elif r.kind == 'sub':
                ok = any(f['type'] == 'SUBACK' and f['msgId'] == r.msgId for f in fs)
            elif r.kind == 'unsub':
                ok = any(f['type'] == 'UNSUBACK' and f['msgId'] == r.msgId for f in fs)
            else:
                ok = True
            if not ok:
                v.append(V('effect', 'unjustified-success/%s%s' % (r.kind, '-q%d' % r.qos if r.kind == 'pub' else ''),
                           '%s request (id %r) succeeded on input %s' % (r.kind, r.msgId, data.hex())))
        elif o[0] == 'w':
            resumed = step0_reqs['phase'] == 'connecting' and any(f['type'] == 'CONNACK' and f['rc'] == 0 for f in fs)
            for p in o[5]:
                if resumed and p['type'] in ('SUBSCRIBE', 'UNSUBSCRIBE', 'PINGREQ'):
                    continue        # an accepting CONNACK starts keepalive and resumes the carried-over session
                if p['type'] in ('CONNECT', 'DISCONNECT', 'SUBSCRIBE', 'UNSUBSCRIBE', 'PINGREQ'):
                    v.append(V('effect', 'unjustified-write/%s' % p['type'], data.hex()))
    return v


def run_one(profile, mode, base, data, persist):
    w = build_base(profile, mode, base)
    c = w.conn(0)
    if c.lost or c.close_req is not None:
        return [], 'base-closed'
    pre = {'phase': w.phase(c), 'pubrec': set(r.idx for r in w.reqs if r.kind == 'pub' and r.acked('PUBREC')),
           'stored': {}}
    if profile != 'pub' and 'busy' in base:
        # the stored inbound QoS 2 message of the base (id 9)
        for o in w.obs:
            if o[0] == 'rx':
                for f in frames(o[2]):
                    if f and f['type'] == 'PUBLISH' and f['qos'] == 2:
                        pre['stored'].setdefault(f['msgId'], []).append(
                            (f['topic'], bytes(f['payload']), 2, bool(f['dup']), bool(f['retain']), f['msgId']))
    w.apply(('raw', 0, data))
    v = judge(w, data, pre)
    aborted = c.close_req is not None or c.lost
    # closing: the connection ends (client abort or broker close); then let time pass
    if c.pending_loss is not None and not c.lost:
        w.apply(('lossdeliver', 0))
    elif not c.lost:
        w.apply(('lose', 0, 'done'))
    n = 0
    while w.pending_calls() and n < 8:
        w.apply(('tick', 0))
        n += 1
    for o in w.obs[w.mark_inj if hasattr(w, 'mark_inj') else 0:]:
        pass
    for o in w.obs:
        if o[0] == 'exc' and not any(x['kind'] == 'exc' for x in v):
            v.append(V('exc', 'exception-later/%s/%s' % (o[1], o[3]), '%s: %s (input %s)' % (o[3], o[4], data.hex())))
    for r in w.reqs:
        if r.pending:
            if persist and r.kind == 'pub':
                continue
            if persist and r.kind in ('sub', 'unsub'):
                continue
            v.append(V('hanging', 'request-left-hanging/%s' % r.kind, '%s request pending after the connection ended (input %s)' % (r.kind, data.hex())))
    from ..monitor import is_idle
    if not is_idle(c):
        v.append(V('hanging', 'not-idle-after-loss/%s' % state_name(c), data.hex()))
    outcome = ('aborted' if aborted else 'open', tuple(sorted(set(o[0] + ':' + str(o[1]) for o in w.obs[-12:] if o[0] in ('cb', 'fire')))))
    return v, outcome


def state_name(c):
    return type(c.proto.state).__name__


# ------------------------------------------------------------------------------------------- input families

ALPHA16 = [0x20, 0x30, 0x32, 0x34, 0x40, 0x50, 0x62, 0x70, 0x90, 0xB0, 0xD0, 0x00, 0x01, 0x02, 0x7F, 0x80]
ALPHA16b = [0x10, 0x82, 0xA2, 0xC0, 0xE0, 0xF0, 0x3D, 0x04, 0x05, 0x06, 0x09, 0x03, 0xFF, 0x0A, 0x21, 0x61]
BODY6 = [0x00, 0x01, 0x02, 0x04, 0x80, 0xFF]


def short_strings(alpha, maxlen):
    for n in range(1, maxlen + 1):
        for t in itertools.product(alpha, repeat=n):
            yield bytes(t)


def first_byte_bodies(maxrl):
    for b0 in range(256):
        for rl in range(0, maxrl + 1):
            for body in itertools.product(BODY6, repeat=rl):
                yield bytes([b0, rl]) + bytes(body)


def valid_packets(ids):
    out = [rc.enc_connack(False, 0), rc.enc_connack(True, 0), rc.enc_connack(False, 5), rc.enc_pingresp()]
    for i in ids:
        for t in ('PUBACK', 'PUBREC', 'PUBREL', 'PUBCOMP', 'UNSUBACK'):
            out.append(rc.enc_ack(t, i))
        out.append(rc.enc_suback(i, [1, 0x80]))
    out.append(rc.enc_publish('a/b', b'xy', 0))
    out.append(rc.enc_publish('a/é', b'', 1, False, True, 7))
    out.append(rc.enc_publish('q', b'z', 2, True, False, 9))
    return out


def mutations(ids, full=True):
    seen = set()
    for pkt in valid_packets(ids):
        cands = []
        for i in range(len(pkt)):
            for x in (range(256) if full else (0x00, 0x01, 0x7F, 0x80, 0xFF, pkt[i] ^ 0x10, pkt[i] ^ 0x01, pkt[i] ^ 0x08)):
                if x != pkt[i]:
                    cands.append(pkt[:i] + bytes([x & 0xFF]) + pkt[i + 1:])
        for i in range(1, len(pkt)):
            cands.append(pkt[:i])
        for ext in (b'\x00', b'\xff', b'\x00\x00', b'\x40\x02', b'\xd0'):
            cands.append(pkt + ext)
        cands.append(pkt + pkt)
        for d in cands:
            if d not in seen:
                seen.add(d)
                yield d
    for bad in (b'\x30\x04\x00\x02\xc3\x28', b'\x30\x05\x00\x03\xe2\x82\x28', b'\x30\x04\x00\x02\xed\xa0',
                b'\x32\x06\x00\x02\xff\xfe\x00\x01', b'\x30\x02\x00\x02', b'\x30\x03\x00\x05\x61', b'\x32\x03\x00\x01a',
                b'\x34\x04\x00\x01a\x00', b'\x90\x02\x00\x04', b'\x90\x01\x00', b'\x20\x01\x00', b'\x20\x00',
                b'\x30\x80\x80\x80\x80\x01', b'\x30\xff\xff\xff\xff\x7f', b'\x30\x81\x00\x00'):
        if bad not in seen:
            seen.add(bad)
            yield bad


def connacks():
    for sp in (0, 1):
        for rcode in range(256):
            yield bytes([0x20, 0x02, sp, rcode])


def pairs(ids):
    """Two- and three-frame inputs: effects that need an earlier frame of the same input."""
    for b0 in range(0x30, 0x40):
        for mid in (9, 12):
            body = b'\x00\x01q' + bytes([0, mid]) + b'z'
            pub = bytes([b0, len(body)]) + body
            yield pub + rc.enc_ack('PUBREL', mid)
            yield pub + pub + rc.enc_ack('PUBREL', mid) + rc.enc_ack('PUBREL', mid)
    for i in ids:
        for a in ('PUBACK', 'PUBREC', 'PUBCOMP'):
            for b in ('PUBACK', 'PUBREC', 'PUBCOMP'):
                yield rc.enc_ack(a, i) + rc.enc_ack(b, i)
        yield rc.enc_suback(i, [0]) + rc.enc_suback(i, [2])
        yield rc.enc_ack('UNSUBACK', i) + rc.enc_ack('UNSUBACK', i)
        yield rc.enc_ack('PUBREL', i) + rc.enc_ack('PUBREL', i)


def _work(task):
    profile, mode, base, persist, inputs = task
    viol, outcomes, n = {}, set(), 0
    for data in inputs:
        v, oc = run_one(profile, mode, base, data, persist)
        n += 1
        outcomes.add(oc)
        for x in v:
            sig = x['signature']
            if sig not in viol or len(data) < len(viol[sig][1]):
                viol[sig] = (x, data)
    return profile, mode, base, n, outcomes, viol


def plan(ctx):
    q = ctx.quick
    tasks = []
    ids = [1, 2, 3, 4, 6, 9, 77]
    fam_mut = list(mutations(ids, full=not q))
    fam_fb = list(first_byte_bodies(2 if q else 3))
    fam_s3 = list(short_strings(ALPHA16, 3))
    fam_s4 = list(short_strings(ALPHA16, 4))
    fam_s3b = list(short_strings(ALPHA16b, 3))
    fam_s5 = None if q else list(short_strings(ALPHA16[:11] + [0x00], 5))
    fam_ck = list(connacks())
    fam_pairs = list(pairs(ids))
    for profile in ('pub', 'sub', 'pubsub'):
        for mode in ('sync', 'async'):
            for base in ('fresh', 'connecting', 'idle', 'busy', 'busy-v31-persist', 'reconnecting-session'):
                persist = base.endswith('persist') or base == 'reconnecting-session'
                fams = [('mut', fam_mut), ('s3', fam_s3), ('pairs', fam_pairs)]
                if base in ('connecting', 'idle'):
                    fams.append(('connacks', fam_ck))
                if base in ('busy', 'connecting') or not q:
                    fams.append(('fb', fam_fb))
                    fams.append(('s3b', fam_s3b))
                if not q or (base == 'busy' and (profile, mode) == ('pubsub', 'sync')):
                    fams.append(('s4', fam_s4))
                if not q and base == 'busy':
                    fams.append(('s5', fam_s5))
                for fname, fam in fams:
                    for i in range(0, len(fam), 4000):
                        tasks.append((profile, mode, base, persist, fam[i:i + 4000]))
    return tasks


def run(ctx):
    from ..explorer import PrefixBroken
    try:
        return _run(ctx)
    except PrefixBroken as e:
        ctx.violation({'kind': 'prefix', 'signature': 'base-history-misbehaves', 'detail': str(e),
                       'history': [['base', str(e)[:80]]], 'scenario': {'name': 'inject', 'profile': 'pubsub', 'mode': 'sync', 'base': 'busy'}})


def _run(ctx):
    ctx.rule = ('exhaustive injection: every input of every family (all strings <= 3/4/5 bytes over a 16-symbol alphabet, '
                'every first byte x short bodies, every single-byte mutation / truncation / extension of every valid '
                'broker packet, invalid UTF-8) into every profile x transport mode x base state, followed by the end of '
                'the connection and a timer drain; distinct = distinct (reaction, application-visible effects)')
    tasks = plan(ctx)
    t0 = time.time()
    n, outcomes = 0, set()
    per = {}
    with mp.get_context('fork').Pool(min(16, os.cpu_count() or 1)) as pool:
        for profile, mode, base, k, ocs, viol in pool.imap_unordered(_work, tasks):
            n += k
            outcomes |= set((base,) + tuple(o) if not isinstance(o, str) else (base, o) for o in ocs)
            per[(profile, mode, base)] = per.get((profile, mode, base), 0) + k
            for sig, (x, data) in viol.items():
                x = dict(x)
                x['history'] = [list(e) for e in BASES[base]] + [['raw', 0, {'hex': data.hex()}]]
                x['scenario'] = {'name': 'inject', 'profile': profile, 'mode': mode, 'base': base}
                ctx.violation(x)
    ctx.add_enum(n, len(outcomes), [{'profile': 'pubsub', 'mode': 'sync', 'base': 'busy', 'input': '30020002'},
                                    {'profile': 'pub', 'mode': 'async', 'base': 'busy', 'input': '4002'}])
    ctx.executions += n
    ctx.extra['injections_per_state'] = {'%s/%s/%s' % k: v for k, v in sorted(per.items())}
    ctx.extra['wall_inject_s'] = round(time.time() - t0, 1)
    ctx.assumptions = ['"well-formed" is the structural notion of the reference decoder (DESIGN 6)',
                       'injected into an empty receive buffer']


def replay(rec):
    from ..scen import unplain
    sc = rec['scenario']
    data = unplain(rec['history'][-1][2])
    v, oc = run_one(sc['profile'], sc['mode'], sc['base'], data, sc['base'].endswith('persist') or sc['base'] == 'reconnecting-session')
    print(sc, data.hex(), oc)
    for x in v:
        print('  >>>', x['signature'], x['detail'])
    if any(x['signature'] == rec['signature'] for x in v):
        print('VIOLATION property=%s replay=%s' % (PROP, rec['_path']))
        return 1
    return 0
