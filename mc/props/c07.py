"""C07 -- subscribe()/unsubscribe(): one request per call, matched by id, window enforced."""
from ..monitor import Monitor, V, rx_packets, fires, writes, CONNECTED
from ..scen import Std
from ..world import canon_world, reqkey

PROP = 'C07'

PKT = {'sub': 'SUBSCRIBE', 'unsub': 'UNSUBSCRIBE'}
ACK = {'sub': 'SUBACK', 'unsub': 'UNSUBACK'}


def counted(w, r, before_idx):
    """Requests of r's kind that 'await acknowledgement' on r's connection when r is made: pending, made on this
    connection or re-sent on it (a request left over from a connection that has gone does not count)."""
    n = 0
    for e in w.reqs:
        if e.idx >= before_idx or e.kind != r.kind or e.addr != r.addr or e.ret != 'deferred':
            continue
        if e.msgId is None:
            continue
        was_pending = not e.fires or e.fires[0][0] >= r.call_step and not _fired_before_call(w, e, r)
        if not was_pending:
            continue
        if e.conn == r.conn or any(t[1] == r.conn for t in e.tx):
            n += 1
    return n


def _fired_before_call(w, e, r):
    if not e.fires or e.fires[0][0] < r.call_step:
        return bool(e.fires)
    if e.fires[0][0] > r.call_step:
        return False
    for o in w.new_obs():
        if o[0] == 'fire' and o[1] == e.idx:
            return True
        if o[0] == 'call' and o[1] == r.idx:
            return False
    return False


class Mon(Monitor):
    stateless = True

    def before_last(self, w, ev):
        self.prev = None
        if ev[0] == 'dack' or (ev[0] == 'ack' and ev[3][0] == 'stray') or (ev[0] == 'suback' and ev[2][0] in ('stray', 'd')):
            self.prev = (canon_world(w), reqkey(w))

    def step(self, w):
        out = []
        ev = w.hist[-1]
        wr = writes(w)
        rx = rx_packets(w)
        for r in w.reqs:
            if r.kind not in PKT or r.call_step != w.step:
                continue
            c = w.conns[r.conn]
            mine = [p for ci, p, o in wr if p['type'] == PKT[r.kind] and p.get('req') == r.idx]
            refused = r.ret != 'deferred' or (r.failed and r.fires[0][0] == r.call_step)
            n = counted(w, r, r.idx)
            valid_state = r.call_phase == 'connected' and c.close_req is None and w.profile != 'pub'
            if refused:
                why = r.exc if r.ret != 'deferred' else r.fires[0][2]
                if mine:
                    out.append(V('write', 'refused-call-wrote-packet/%s' % r.kind, 'request %d refused (%s) but wrote %s' % (r.idx, why, PKT[r.kind])))
                if valid_state:
                    if why == 'MQTTWindowError':
                        if n < c.window:
                            out.append(V('window', 'window-error-below-window/%s/%d<%d' % (r.kind, n, c.window),
                                         '%s() refused with MQTTWindowError while only %d requests await acknowledgement '
                                         'on this connection (window %d)' % (r.kind, n, c.window)))
                        else:
                            self.see('window-error')
                    else:
                        out.append(V('refused', 'valid-call-refused/%s/%s' % (r.kind, why), 'request %d' % r.idx))
                continue
            if not valid_state:
                continue
            if n >= c.window:
                out.append(V('window', 'accepted-above-window/%s/%d>=%d' % (r.kind, n, c.window),
                             '%s() accepted while %d requests await acknowledgement and the window is %d' % (r.kind, n, c.window)))
            if len(mine) != 1:
                out.append(V('write', 'call-wrote-%d-packets/%s' % (len(mine), r.kind), 'request %d wrote %d %s packets' % (r.idx, len(mine), PKT[r.kind])))
                continue
            p = mine[0]
            want = list(r.args['topics'])
            got = list(p['topics'])
            if got != want:
                out.append(V('write', 'topics-differ/%s/%s' % (r.kind, r.args['shape']), 'asked %r, wire %r' % (want, got)))
            if p['msgId'] != r.msgId:
                out.append(V('write', 'wire-id-differs-from-msgId/%s' % r.kind, 'wire %r, Deferred.msgId %r' % (p['msgId'], r.msgId)))
            for e in w.reqs:
                if e is not r and e.kind in ('pub', 'sub', 'unsub') and e.msgId == r.msgId and e.pending and \
                        w.factory(e.addr) is w.factory(r.addr):
                    out.append(V('write', 'identifier-not-fresh/%s-vs-%s' % (r.kind, e.kind), 'id %r also carried by unfinished request %d' % (r.msgId, e.idx)))
            self.see('accepted/%s/%s' % (r.kind, r.args['shape']))
        for (r, how, val, isr) in fires(w, ('sub', 'unsub')):
            if r.fires[0][0] == r.call_step and how == 'err':
                continue
            if len(r.fires) > 1:
                out.append(V('fire', 'fired-twice/%s' % r.kind, 'request %d fired %d times' % (r.idx, len(r.fires))))
                continue
            if how == 'ok':
                acks = [p for ci, p in rx if ci == w.cur[r.addr] and p['type'] == ACK[r.kind] and p['msgId'] == r.msgId]
                if not acks:
                    out.append(V('fire', 'success-without-%s/on-%s' % (ACK[r.kind], ev[0]), 'request %d (id %r) succeeded, no %s with its id delivered' % (r.idx, r.msgId, ACK[r.kind])))
                    continue
                if r.kind == 'sub':
                    want = tuple((c & 0x7F, bool(c & 0x80)) for c in acks[0]['codes'])
                    if val != want:
                        out.append(V('fire', 'granted-list-differs', 'SUBACK codes %r, callback value %r' % (acks[0]['codes'], val)))
                    else:
                        self.see('suback-%d-codes' % len(want))
                else:
                    if val != r.msgId:
                        out.append(V('fire', 'unsuback-value-differs', 'callback value %r, id %r' % (val, r.msgId)))
                    else:
                        self.see('unsuback')
            else:
                if not any(c.lost for c in w.conns if c.addr == r.addr):
                    out.append(V('fire', 'failed-without-loss/%s/%s' % (r.kind, val), 'request %d failed with %s' % (r.idx, val)))
        for ci, p in rx:
            c = w.conns[ci]
            if c.connack_step is None or c.connack_step >= w.step or c.phase != 'connected' or \
                    (c.close_req is not None and c.close_step < w.step) or (c.lost and c.lost_step < w.step):
                continue
            for r in w.reqs:
                if r.kind in PKT and r.addr == c.addr and p.get('msgId') is not None and r.msgId == p.get('msgId') and \
                        p['type'] == ACK[r.kind] and \
                        r.ret == 'deferred' and r.call_step < w.step and not any(f[0] < w.step for f in r.fires) and \
                        any(t[1] == ci and t[0] < w.step for t in r.tx) and not r.fires:
                    out.append(V('fire', 'matching-ack-ignored/%s' % r.kind,
                                 '%s(%d) delivered for pending request %d but its Deferred did not fire' % (p['type'], p['msgId'], r.idx)))
        for o in w.new_obs():
            if o[0] == 'exc':
                out.append(V('exc', 'exception/%s/%s' % (o[1], o[3]), '%s: %s' % (o[3], o[4])))
        prev, self.prev = getattr(self, 'prev', None), None
        if prev is not None:
            self.see('foreign-ack-checked')
            if (canon_world(w), reqkey(w)) != prev:
                out.append(V('noop', 'foreign-ack-had-effect/%s' % ev[0], 'state changed on %r' % (ev,)))
        return out

    def at_end(self, w):
        out = []
        for r in w.reqs:
            if r.kind in PKT and r.ret == 'deferred' and len(r.fires) != 1:
                c = w.conns[r.conn]
                out.append(V('pending', 'not-fired-once-at-end/%s/%d/%s' % (r.kind, len(r.fires), 'clean' if c.clean else 'persistent'),
                             'after reconnecting and answering everything request %d (made on a %s connection) has fired %d times' % (
                                 r.idx, 'clean' if c.clean else 'persistent', len(r.fires))))
        return out

    def outcome(self, w):
        return tuple((r.kind, r.fires[0][1:3] if r.fires else None) for r in w.reqs if r.kind in PKT)


CODES = ((0,), (1, 2), (0x80,), tuple([0, 1, 2, 0x80] * 32), (0, 0x80, 2), ())


def scenarios(ctx):
    q = ctx.quick
    out = []
    # argument shapes x granted lists, fixed window
    for profile, win in (('sub', 2), ('pubsub', 3)):
        if q and win == 3:
            continue
        init = CONNECTED + (('setwin', 0, win),)
        out.append(Std('%s-shapes-w%d' % (profile, win), profile=profile, init=init,
                       sub_shapes=('str', 'tuple', 'list'), unsub_shapes=('str', 'list'),
                       suback_codes=CODES if not q else CODES[:4],
                       budgets=dict(sub=2, unsub=1, ack=2 if q else 3, dack=1, stray=1, tick=1)))
    # window enforcement incl. lowering it below the number of pending requests
    for profile, win in (('pubsub', 1), ('sub', 2), ('sub', 3)):
        if q and win == 3:
            continue
        init = CONNECTED + ((('setwin', 0, win),) if win != 1 else ())
        out.append(Std('%s-window-w%d' % (profile, win), profile=profile, init=init, windows=(1, 2, 3),
                       budgets=dict(sub=3, unsub=2 if q else 3, ack=1 if q else 2, setwin=2, tick=0 if q else 1)))
    out.append(Std('sub-reenter', profile='sub', init=CONNECTED, reenter=('sub', 'unsub'), windows=(1, 2),
                   budgets=dict(sub=2, unsub=1, ack=2, setwin=1)))
    for clean in (True, False):
        out.append(Std('sub-loss-%s' % ('clean' if clean else 'persist'), profile='sub',
                       init=(('connect', 0, clean, 0, 4), ('connack', 0, 0, False), ('setwin', 0, 2)),
                       connects=[(clean, 0, 4)], reconnects=[(False, 0, 4), (True, 0, 4)],
                       sub_shapes=('str',), unsub_shapes=('str',), windows=(1, 2),
                       budgets=dict(sub=2, unsub=1, ack=2, tick=1, lose=1 if q else 2, rebuild=1 if q else 2,
                                    connect=1 if q else 2, connack=1 if q else 2, setwin=1)))
    out.append(Std('sub-callback-returns-deferred', profile='sub', init=CONNECTED, cb_deferred=True, windows=(1, 2),
                   budgets=dict(sub=3, unsub=2, ack=3, setwin=1, tick=1)))
    # subscribe() called from the callback of connect() of a resumed session with requests carried over
    out.append(Std('sub-reenter-connected', profile='sub', init=(('connect', 0, False, 0, 4), ('connack', 0, 0, False), ('setwin', 0, 2)),
                   connects=[(False, 0, 4)], reconnects=[(False, 0, 4)], sub_shapes=('str',), unsub_shapes=('str',),
                   reenter=('ok:connect@1>sub', 'ok:connect@1>unsub'), windows=(1, 2),
                   budgets=dict(sub=2, unsub=1, ack=2, lose=1, rebuild=1, connect=1, connack=1, setwin=1)))
    out.append(Std('pubsub-loss-v31', profile='pubsub', mode='async',
                   init=(('connect', 0, False, 0, 3), ('connack', 0, 0, False)),
                   connects=[(False, 0, 3)], reconnects=[(False, 0, 3)],
                   budgets=dict(sub=1, unsub=1, ack=1, tick=2, lose=1, disconnect=1, rebuild=1, connect=1, connack=1)))
    return out


def run(ctx):
    ctx.rule = 'BFS over symbolic event histories; closing phase reconnects (same session mode) and answers everything'
    for scn in scenarios(ctx):
        ctx.explore(scn, Mon)
    ctx.assumptions = ['windows 1..3 stand for 1..16']
