"""C12 -- persistent session: in-flight publishes survive loss, resume on the next connection."""
from ..monitor import Monitor, V, pubs, accepted, rx_packets, fires, writes, pending_before, CONNECTED_P
from ..scen import Std

PROP = 'C12'


def carried_pubs(w, c):
    """QoS>0 publishes made on earlier connections of c's address, still pending when this step started and
    still part of the session at the connection before c."""
    out = []
    for r in pubs(w, c.addr):
        if r.qos and r.conn < c.idx and pending_before(w, r):
            out.append(r)
    return out


class Mon(Monitor):
    stateless = True

    def step(self, w):
        out = []
        ev = w.hist[-1]
        fr = fires(w, ('pub',))
        lost_now = [o[1] for o in w.new_obs() if o[0] == 'lost']
        # (1) losing a persistent connection fails no publish Deferred
        for ci in lost_now:
            c = w.conns[ci]
            if c.n_connects and not c.clean:
                self.see('persistent-loss')
                for (r, how, val, isr) in fr:
                    if r.addr == c.addr and r.qos and how == 'err':
                        out.append(V('loss', 'loss-failed-publish/%s' % val,
                                     'persistent connection lost and request %d failed with %s' % (r.idx, val)))
            elif not c.n_connects:
                # no CONNECT was ever sent on this connection: it was opened in neither mode, and its loss is no reason to
                # fail what a persistent session keeps for the address
                self.see('loss-before-connect')
                for (r, how, val, isr) in fr:
                    if r.addr == c.addr and r.qos and how == 'err' and r.conn < c.idx and w.session_alive(r):
                        out.append(V('loss', 'loss-before-connect-failed-publish/%s' % val,
                                     'a protocol that never sent CONNECT lost its transport and request %d of the persistent '
                                     'session failed with %s' % (r.idx, val)))
            elif c.n_connects and c.clean:
                # clean connection died: everything carried over must be failed by now (SessionCleared or the loss)
                for r in pubs(w, c.addr):
                    if r.qos and r.conn < c.idx and r.pending:
                        out.append(V('clean', 'carried-over-survives-clean-connection/lost-before-connack',
                                     'request %d of an earlier session still pending after a clean connection ended' % r.idx))
        # (2) CONNACK(0) of a later connection
        for a in range(w.naddr):
            c = w.conn(a)
            if c is None or c.connack_step != w.step or w.phase(c) not in ('connected', 'lost') or c.phase != 'connected':
                continue
            prev = [x for x in w.conns if x.addr == a and x.idx < c.idx and x.n_connects]
            if not prev:
                continue
            wr = [(p, o) for ci, p, o in writes(w) if ci == c.idx]
            car = carried_pubs(w, c)
            if not c.clean:
                alive = [r for r in car if w.session_alive(r)]
                self.see('persistent-connack')
                # "carried over" = had a copy on the wire of an EARLIER connection
                want_pub = [r for r in alive if any(t[1] < c.idx for t in r.tx) and not r.rel_tx and
                            not r.acked('PUBREC')]
                want_rel = [r for r in alive if any(t[1] < c.idx for t in r.rel_tx)]
                got_pub = [p for p, o in wr if p['type'] == 'PUBLISH' and p.get('req') is not None]
                got_rel = [p for p, o in wr if p['type'] == 'PUBREL']
                # every carried-over unacknowledged PUBLISH exactly once, DUP=1, same bytes, original order
                seq = []
                for p in got_pub:
                    r = w.reqs[p['req']]
                    if r in want_pub:
                        seq.append(r.idx)
                        first = r.tx[0][4]
                        same = p['raw'][1:] == first[1:] and (p['raw'][0] & 0xF7) == (first[0] & 0xF7)
                        if not p['dup']:
                            out.append(V('resume', 'resent-without-dup/q%d' % r.qos, 'request %d re-sent at CONNACK without DUP' % r.idx))
                        if not same or p['msgId'] != r.msgId:
                            out.append(V('resume', 'resent-with-different-content', 'request %d re-sent with different bytes' % r.idx))
                        self.see('resent-publish')
                    elif r in want_rel:
                        out.append(V('resume', 'publish-resent-for-released-id', 'request %d already has a PUBREL, PUBLISH re-sent at CONNACK' % r.idx))
                    elif len(r.tx) == 1 and p['dup']:
                        out.append(V('resume', 'held-back-released-with-dup/q%d' % r.qos,
                                     'request %d was never on the wire before; the resumption sends it with DUP=1' % r.idx))
                    elif r.conn == c.idx and len([t for t in r.tx if t[1] == c.idx]) > 1:
                        out.append(V('resume', 'own-request-resent-at-connack/q%d' % r.qos,
                                     'request %d was first sent on this connection and is re-sent by the resumption' % r.idx))
                for r in want_pub:
                    n = seq.count(r.idx)
                    if n != 1:
                        out.append(V('resume', 'carried-publish-resent-%d-times/q%d' % (n, r.qos),
                                     'carried-over request %d re-sent %d times at CONNACK' % (r.idx, n)))
                if seq != sorted(seq) and all(seq.count(i) == 1 for i in seq):
                    out.append(V('resume', 'resent-out-of-order', 'carried-over publishes re-sent in order %r' % seq))
                relids = [p['msgId'] for p in got_rel]
                for r in want_rel:
                    n = relids.count(r.msgId)
                    if n != 1:
                        out.append(V('resume', 'carried-pubrel-resent-%d-times' % n, 'PUBREL of request %d re-sent %d times at CONNACK' % (r.idx, n)))
                    else:
                        self.see('resent-pubrel')
                for p in got_rel:
                    r = None if p.get('req') is None else w.reqs[p['req']]
                    if r is not None and r.conn == c.idx and len([t for t in r.rel_tx if t[1] == c.idx]) > 1 and \
                            not any(q is r for q in want_rel):
                        out.append(V('resume', 'own-pubrel-resent-at-connack', 'PUBREL of request %d re-sent by the resumption' % r.idx))
            else:
                self.see('clean-connack-after-session')
                for r in pubs(w, a):
                    if r.qos and r.conn < c.idx and r.ret == 'deferred':
                        if r.pending:
                            out.append(V('clean', 'carried-over-survives-clean-connection/pending',
                                         'request %d of the discarded session still pending after the clean CONNACK' % r.idx))
                        elif r.failed and r.fires[0][0] >= c.connect_step and r.fires[0][2] != 'MQTTSessionCleared':
                            out.append(V('clean', 'carried-over-failed-with/%s' % r.fires[0][2],
                                         'request %d of the discarded session failed with %s' % (r.idx, r.fires[0][2])))
                        elif r.failed and r.fires[0][0] >= c.connect_step:
                            self.see('session-cleared')
            # (2b) "releases held-back messages as the window allows": after the CONNACK step nothing accepted is still
            # unsent while fewer publishes than the window await their first acknowledgement
            if not c.lost and c.open:
                ps = pubs(w, a)
                infl = [e for e in ps if e.qos and e.tx and e.pending and w.session_alive(e) and
                        not (e.acked('PUBACK') or e.acked('PUBREC'))]
                unsent = [e for e in ps if accepted(e) and not e.tx and w.session_alive(e) and (e.qos == 0 or e.pending)]
                if unsent and (unsent[0].qos == 0 or len(infl) < c.window):
                    out.append(V('heldback', 'held-back-not-released-at-connack/q%d' % unsent[0].qos,
                                 'after CONNACK %d publishes await their first ack, window is %d, request %d still unsent' % (
                                     len(infl), c.window, unsent[0].idx)))
                elif unsent:
                    self.see('held-back-kept-by-full-window')
            # (3) requests of the new connection itself are not failed by the resumption
            for (r, how, val, isr) in fr:
                if r.conn == c.idx and how == 'err' and not c.lost:
                    out.append(V('own', 'own-request-failed-at-connack/%s' % val,
                                 'request %d made on the new connection failed with %s in its CONNACK step' % (r.idx, val)))
        # (3b) ... nor at connect() time
        if ev[0] == 'connect':
            for (r, how, val, isr) in fr:
                c = w.conn(r.addr)
                if r.conn == c.idx and how == 'err':
                    out.append(V('own', 'own-request-failed-at-connect/%s' % val, 'request %d' % r.idx))
        # successes only through the usual acks (light version of C05, so resumed exchanges are covered)
        rx = rx_packets(w)
        for (r, how, val, isr) in fr:
            if how == 'ok' and r.qos:
                need = 'PUBACK' if r.qos == 1 else 'PUBCOMP'
                if not any(p['type'] == need and p['msgId'] == r.msgId for _, p in rx):
                    out.append(V('complete', 'success-without-%s' % need, 'request %d' % r.idx))
                elif r.conn != w.cur[r.addr]:
                    self.see('completed-on-later-connection')
        # held-back messages: released no later than "connected, nothing outstanding, something unsent"
        for a in range(w.naddr):
            c = w.conn(a)
            if c is None or w.phase(c) != 'connected' or not c.open:
                continue
            ps = pubs(w, a)
            if any(e.qos and e.tx and e.pending for e in ps):
                continue
            for e in ps:
                if e.ret == 'deferred' and not e.tx and w.session_alive(e) and e.pending and e.qos:
                    out.append(V('heldback', 'held-back-not-released/q%d' % e.qos,
                                 'connected, nothing in flight, request %d still unsent' % e.idx))
                    break
        return out

    def at_end(self, w):
        out = []
        for r in pubs(w):
            if r.ret == 'deferred' and len(r.fires) != 1:
                out.append(V('complete', 'not-fired-once-at-end/q%d/%d' % (r.qos, len(r.fires)),
                             'request %d fired %d times after reconnect + broker answering everything' % (r.idx, len(r.fires))))
        return out

    def outcome(self, w):
        return tuple((r.qos, len(r.tx), r.fires[0][1:3] if r.fires else None) for r in pubs(w))


def scenarios(ctx):
    q = ctx.quick
    out = []
    for profile, win in (('pub', 1), ('pubsub', 2)):
        init = CONNECTED_P + ((('setwin', 0, win),) if win != 1 else ())
        out.append(Std('%s-w%d' % (profile, win), profile=profile, init=init, connects=[(False, 0, 4)],
                       reconnects=[(False, 0, 4), (True, 0, 4)], pub_qos=(1, 2) if q else (0, 1, 2),
                       budgets=dict(pub=2 if q else 3, ack=2 if q else 4, tick=1, lose=2 if q else 3, rebuild=2 if q else 3,
                                    connect=2 if q else 3, connack=2 if q else 3, dack=0 if q else 1)))
    out.append(Std('pubsub-wrap', profile='pubsub', init=CONNECTED_P + (('setwin', 0, 3),), connects=[(False, 0, 4)],
                   reconnects=[(False, 0, 4)], pub_qos=(1, 2),
                   budgets=dict(pub=3, ack=1, setid=1, lose=1, rebuild=1, connect=1, connack=1)))
    out.append(Std('pub-w1-queue', profile='pub', init=CONNECTED_P, connects=[(False, 0, 4)],
                   reconnects=[(True, 0, 4), (False, 0, 4)], pub_qos=(0, 1, 2) if not q else (0, 1),
                   budgets=dict(pub=4, ack=0 if q else 1, lose=1, rebuild=1, connect=1, connack=1, tick=0 if q else 1)))
    # the application publishes again from the errback of a request failed by the session handling
    out.append(Std('pub-reenter-errback', profile='pub', init=CONNECTED_P, connects=[(False, 0, 4)], reenter=('err:pub>pub',),
                   reconnects=[(True, 0, 4), (False, 0, 4)], pub_qos=(1, 2), windows=(1, 2),
                   budgets=dict(pub=2, ack=1, lose=1, rebuild=1, connect=1, connack=1, setwin=1, tick=0 if q else 1)))
    # the application publishes from the callback of connect() while the resumed session is being brought back
    out.append(Std('pub-reenter-connected', profile='pub', init=CONNECTED_P, connects=[(False, 0, 4)],
                   reenter=('ok:connect@1>pub1', 'ok:connect@1>pub2'), reconnects=[(False, 0, 4), (True, 0, 4)], pub_qos=(1, 2), windows=(1, 2),
                   budgets=dict(pub=2, ack=1, lose=1, rebuild=1, connect=1, connack=1, setwin=1, tick=0 if q else 1)))
    # the transport of a rebuilt protocol is lost before the application has called connect() on it
    out.append(Std('pub-lost-before-connect', profile='pub', init=CONNECTED_P + (('setwin', 0, 2),), connects=[(False, 0, 4)],
                   reconnects=[(False, 0, 4), (True, 0, 4)], pub_qos=(1, 2), lose_new=True,
                   budgets=dict(pub=2, ack=1, lose=2, rebuild=2, connect=1, connack=1, tick=0 if q else 1)))
    # more messages than the window across a loss: part acknowledged/released, part in flight, part held back
    out.append(Std('pub-w2-queue', profile='pub', init=CONNECTED_P + (('setwin', 0, 2),), connects=[(False, 0, 4)],
                   reconnects=[(False, 0, 4)], pub_qos=(1, 2), windows=(1, 3),
                   budgets=dict(pub=3, ack=1 if q else 2, lose=1, rebuild=1, connect=1, connack=1, setwin=1)))
    # one factory, two addresses: a clean connection (or its loss) on one address while the other keeps a persistent session
    out.append(Std('two-addresses', profile='pub', naddr=2, pub_qos=(1, 2),
                   init=(('connect', 0, False, 0, 4), ('connack', 0, 0, False), ('setwin', 0, 2)),
                   connects=[(True, 0, 4)], reconnects=[(False, 0, 4)],
                   addr_budgets=[dict(pub=2, ack=1, lose=1, rebuild=1, connect=1, connack=1),
                                 dict(connect=1, connack=1, lose=1, pub=1)]))
    out.append(Std('pubsub-async', profile='pubsub', mode='async', init=CONNECTED_P, connects=[(False, 0, 4)],
                   reconnects=[(False, 0, 4), (True, 0, 4)], pub_qos=(1, 2),
                   budgets=dict(pub=2, ack=2, tick=1, lose=1, disconnect=1, rebuild=2, connect=2, connack=2)))
    return out


def run(ctx):
    ctx.rule = 'BFS over symbolic event histories; state = canonical object graph + request table + budgets'
    for scn in scenarios(ctx):
        ctx.explore(scn, Mon)
    ctx.assumptions = ['a connection lost before connect() was called on it counts as opened in neither mode: it fails nothing of a persistent session (scenario pub-lost-before-connect)']
