"""C03 -- packet framing is independent of how TCP segments the byte stream."""
import itertools
import multiprocessing as mp
import os

from .. import refcodec as rc
from ..explorer import digest
from ..monitor import V
from ..world import World, canon_world, reqkey

PROP = 'C03'

BASE = (('connect', 0, True, 5, 4), ('connack', 0, 0, False), ('setwin', 0, 3),
        ('pub', 0, 1), ('pub', 0, 2), ('ack', 0, 'PUBREC', ('r', 2)), ('pub', 0, 2),
        ('sub', 0, 'str'), ('unsub', 0, 'str'), ('inpub', 0, 2, False, False, 9, 'short'))
# identifiers in the base: 1 (q1 awaiting PUBACK), 2 (awaiting PUBCOMP), 3 (q2 awaiting PUBREC), 4 (SUBSCRIBE), 6 (UNSUBSCRIBE),
# inbound 9 stored awaiting PUBREL; a PINGREQ is outstanding.


def base_world(profile='pubsub', mode='sync'):
    from ..explorer import PrefixBroken
    w = World(dict(profile=profile, mode=mode))
    for ev in BASE:
        try:
            w.apply(ev)
        except Exception as e:      # noqa
            raise PrefixBroken('base history: scripted event %r failed with %s: %s' % (ev, type(e).__name__, e))
    w.base_mark = len(w.obs)
    return w


# every complete packet that precedes a packet with a 2-byte remaining length has a VISIBLE effect when handled twice
LEN2 = [rc.enc_publish('in/a', b'a', 1, False, False, 11), rc.enc_publish('in/q1', b'p' * 125, 1, False, False, 12),
        rc.enc_ack('PUBREL', 9), rc.enc_publish('in/q0', b'q' * 121, 0, False, True), rc.enc_ack('PUBACK', 1)]


def packets_all(payload=b'pl'):
    return [rc.enc_connack(False, 0),
            rc.enc_publish('in/q0', payload, 0, False, True),
            rc.enc_publish('in/q1', payload, 1, False, False, 11),
            rc.enc_publish('in/é', payload, 2, True, False, 12),
            rc.enc_ack('PUBACK', 1), rc.enc_ack('PUBREC', 3), rc.enc_ack('PUBREL', 9), rc.enc_ack('PUBCOMP', 2),
            rc.enc_suback(4, [1]), rc.enc_ack('UNSUBACK', 6), rc.enc_pingresp()]


def observable(w):
    """What the client visibly did since the base state, in order (the 'rx' bookkeeping of the harness excluded)."""
    out = []
    for o in w.obs[w.base_mark:]:
        if o[0] == 'rx':
            continue
        if o[0] == 'w':
            for p in o[5]:
                out.append(('w', o[1], p['raw']))
            if o[6]:
                out.append(('w-unparsed', o[1], o[2]))
        else:
            out.append(o)
    return out


def expected_actions(pkts):
    """What a client in the base state must visibly do for this packet sequence (reference model of the receive
    side, from the statements of C05/C06/C07) -- so that a framing bug that also affects whole-packet delivery
    (a packet dropped, merged or delayed) cannot hide behind the differential comparison."""
    w = base_world()
    by_id = {r.msgId: r for r in w.reqs if r.msgId}
    stored = {9: ('in/a', b'hello', 2, False, False, 9)}
    recd = set(r.msgId for r in w.reqs if r.kind == 'pub' and r.acked('PUBREC'))
    done = set()
    groups = []
    for raw in pkts:
        out = []
        groups.append(out)
        p = rc.decode(raw, strict=True)
        t = p['type']
        if t == 'PUBLISH':
            f = (p['topic'], bytes(p['payload']), p['qos'], p['dup'], p['retain'], p['msgId'])
            if p['qos'] == 0:
                out.append(('cb', 'onPublish', 0, f))
            elif p['qos'] == 1:
                out.append(('w', 0, rc.enc_ack('PUBACK', p['msgId'])))
                out.append(('cb', 'onPublish', 0, f))
            else:
                stored[p['msgId']] = f
                out.append(('w', 0, rc.enc_ack('PUBREC', p['msgId'])))
        elif t == 'PUBREL':
            if p['msgId'] in stored:
                out.append(('cb', 'onPublish', 0, stored.pop(p['msgId'])))
            out.append(('w', 0, rc.enc_ack('PUBCOMP', p['msgId'])))
        elif t in ('PUBACK', 'PUBCOMP', 'UNSUBACK', 'SUBACK', 'PUBREC'):
            r = by_id.get(p['msgId'])
            if r is None or r.idx in done:
                continue
            if t == 'PUBACK' and r.kind == 'pub' and r.qos == 1:
                out.append(('fire', r.idx, 'ok', r.msgId, False)); done.add(r.idx)
            elif t == 'PUBREC' and r.kind == 'pub' and r.qos == 2 and r.msgId not in recd:
                recd.add(r.msgId)
                out.append(('w', 0, rc.enc_ack('PUBREL', r.msgId)))
            elif t == 'PUBCOMP' and r.kind == 'pub' and r.qos == 2 and r.msgId in recd:
                out.append(('fire', r.idx, 'ok', r.msgId, False)); done.add(r.idx)
            elif t == 'SUBACK' and r.kind == 'sub':
                out.append(('fire', r.idx, 'ok', tuple((c & 0x7F, bool(c & 0x80)) for c in p['codes']), False)); done.add(r.idx)
            elif t == 'UNSUBACK' and r.kind == 'unsub':
                out.append(('fire', r.idx, 'ok', r.msgId, False)); done.add(r.idx)
    return groups


def check_reference(ctx, name, pkts, ref_obs):
    try:
        exp = expected_actions(pkts)
    except Exception as e:      # noqa -- the base history itself went wrong on this tree
        ctx.violation({'kind': 'framing', 'signature': 'base-history-misbehaves',
                       'detail': 'the base history (whole packets only) does not leave the expected requests pending: %s: %s' % (type(e).__name__, e),
                       'history': [['stream', name], ['cuts', []]], 'scenario': {'name': 'ref', 'stream': name}})
        return

    # the order of the actions prompted by ONE packet (acknowledge / deliver) is not prescribed; across packets it is
    groups, exp, pos, same = exp, [], 0, True
    for g in groups:
        got = ref_obs[pos:pos + len(g)]
        if sorted(map(repr, got)) != sorted(map(repr, g)):
            same = False
        exp += (got if sorted(map(repr, got)) == sorted(map(repr, g)) else g)
        pos += len(g)
    if pos != len(ref_obs):
        same = False
    if not same:
        i = next((x for x in range(min(len(exp), len(ref_obs))) if exp[x] != ref_obs[x]), min(len(exp), len(ref_obs)))
        ctx.violation({'kind': 'framing', 'signature': 'whole-packet-delivery-wrong/%s' % name,
                       'detail': 'one packet per chunk: action %d is %r, expected %r (%d actions, expected %d)' % (
                           i, ref_obs[i] if i < len(ref_obs) else None, exp[i] if i < len(exp) else None, len(ref_obs), len(exp)),
                       'history': [['stream', name], ['cuts', list(itertools.accumulate(len(p) for p in pkts))]],
                       'scenario': {'name': 'ref', 'stream': name}})


class TooSlow(Exception):
    pass


def _alarm(signum, frame):
    raise TooSlow()


def deliver(chunks, profile='pubsub', mode='sync', limit=None):
    """Deliver the chunks to a client in the base state.  With `limit` (seconds) a delivery that does not come back
    raises TooSlow: a framing loop that re-parses megabytes per byte is a verdict, not a reason to hang the check."""
    w = base_world(profile, mode)
    if limit:
        import signal
        old = signal.signal(signal.SIGALRM, _alarm)
        signal.setitimer(signal.ITIMER_REAL, limit)
    try:
        for c in chunks:
            w.apply(('raw', 0, c))
    finally:
        if limit:
            signal.setitimer(signal.ITIMER_REAL, 0)
            signal.signal(signal.SIGALRM, old)
    return w


def final_key(w):
    return digest((canon_world(w), reqkey(w)))


# ---------------------------------------------------------------------------------- DP over cut positions

_DP = {}


def _dp_one(task):
    j, cuts = task
    data, profile, mode, ref_obs = _DP['ctx']
    chunks = [data[a:b] for a, b in zip((0,) + cuts, cuts + (j,))]
    w = deliver(chunks, profile, mode)
    obs = observable(w)
    if obs != ref_obs[:len(obs)]:
        i = next((x for x in range(min(len(obs), len(ref_obs))) if obs[x] != ref_obs[x]), min(len(obs), len(ref_obs)))
        return False, None, 'action %d is %r, whole-packet delivery gives %r' % (
            i, obs[i] if i < len(obs) else None, ref_obs[i] if i < len(ref_obs) else None)
    return True, digest((canon_world(w), reqkey(w), repr(obs))), None


def dp_stream(ctx, name, pkts, profile='pubsub', mode='sync'):
    """S_j = distinct (state, observation) pairs after delivering bytes[0:j) in ANY chunking.
    S_0 = {base};  S_j = U_{k<j} { deliver(s, bytes[k:j]) : s in S_k }.   n(n+1)/2 transitions when |S_k| = 1."""
    data = b''.join(pkts)
    n = len(data)
    ref = deliver(pkts, profile, mode)
    ref_obs = observable(ref)
    ref_key = final_key(ref)
    check_reference(ctx, name, pkts, ref_obs)
    S = {0: {None: ()}}             # j -> {key: representative cut tuple (chunk end positions)}
    trans, states = 0, 1
    wit = {'after-1-header-byte': 0, 'inside-length-field': 0, 'inside-body': 0, 'multi-packet-chunk': 0}
    bounds = list(itertools.accumulate(len(p) for p in pkts))
    starts = [0] + bounds[:-1]
    hdr = [1 + len(rc.enc_len(len(p) - 2)) if len(p) - 2 < 128 else 1 + rc.dec_len(p, 1)[1] for p in pkts]
    _DP['ctx'] = (data, profile, mode, ref_obs)
    pool = mp.get_context('fork').Pool(min(16, os.cpu_count() or 1)) if n > 100 else None
    try:
        for j in range(1, n + 1):
            S[j] = {}
            tasks = [(j, cuts) for k in range(0, j) for cuts in S[k].values()]
            results = pool.map(_dp_one, tasks, chunksize=max(1, len(tasks) // 64)) if pool else [_dp_one(t) for t in tasks]
            for (j_, cuts), (ok, kk, info) in zip(tasks, results):
                trans += 1
                k = cuts[-1] if cuts else 0
                if not ok:
                    ctx.violation({'kind': 'framing', 'signature': 'actions-differ/%s' % name,
                                   'detail': 'chunks ending at %r: %s' % (cuts + (j,), info),
                                   'history': [['stream', name], ['cuts', list(cuts + (j,))]],
                                   'scenario': {'name': 'dp', 'stream': name, 'profile': profile, 'mode': mode}})
                    continue
                if kk not in S[j]:
                    S[j][kk] = cuts + (j,)
                    states += 1
                if j < n:
                    pi = max(i for i, s0 in enumerate(starts) if s0 <= j)
                    off = j - starts[pi]
                    if off == 1:
                        wit['after-1-header-byte'] += 1
                    elif 1 < off < hdr[pi]:
                        wit['inside-length-field'] += 1
                    elif off >= hdr[pi]:
                        wit['inside-body'] += 1
                if sum(1 for b in bounds if k < b <= j) > 1:
                    wit['multi-packet-chunk'] += 1
    finally:
        if pool:
            pool.close()
            pool.join()
    for key_n, cuts in S[n].items():
        w = deliver([data[a:b] for a, b in zip((0,) + cuts[:-1], cuts)], profile, mode)
        if observable(w) != ref_obs or final_key(w) != ref_key:
            ctx.violation({'kind': 'framing', 'signature': 'final-state-differs/%s' % name,
                           'detail': 'chunks ending at %r end in another state / action list than whole-packet delivery' % (cuts,),
                           'history': [['stream', name], ['cuts', list(cuts)]],
                           'scenario': {'name': 'dp', 'stream': name, 'profile': profile, 'mode': mode}})
    maxS = max(len(v) for v in S.values())
    return dict(stream=name, bytes=n, packets=len(pkts), transitions=trans, states=states, max_S=maxS,
                compositions_covered='2^%d' % (n - 1), ref_actions=len(ref_obs), witnesses=wit)


# ---------------------------------------------------------------------------------- brute force

SHORT = {
    'acks': [rc.enc_ack('PUBACK', 1), rc.enc_ack('PUBREC', 3), rc.enc_pingresp(), rc.enc_ack('PUBCOMP', 2)],
    'pub1-suback': [rc.enc_publish('a', b'x', 1, False, False, 7), rc.enc_suback(4, [1])],
    'pub0-pub2': [rc.enc_publish('b', b'', 0), rc.enc_publish('c', b'y', 2, False, True, 12)],
    'rel-unsuback-connack': [rc.enc_ack('PUBREL', 9), rc.enc_ack('UNSUBACK', 6), rc.enc_connack(True, 0), rc.enc_pingresp()],
    'pub0x2': [rc.enc_publish('d', b'1', 0), rc.enc_publish('d', b'2', 0, False, True), rc.enc_pingresp()],
    'ping-rec-rel': [rc.enc_pingresp(), rc.enc_pingresp(), rc.enc_ack('PUBREC', 3), rc.enc_ack('PUBREL', 9), rc.enc_pingresp()],
}


def _brute(args):
    name, lo, hi = args
    pkts = SHORT[name]
    data = b''.join(pkts)
    n = len(data)
    ref = deliver(pkts)
    ref_obs, ref_key = observable(ref), final_key(ref)
    bad = []
    for mask in range(lo, hi):
        cuts = [i + 1 for i in range(n - 1) if mask >> i & 1] + [n]
        chunks = [data[a:b] for a, b in zip([0] + cuts[:-1], cuts)]
        w = deliver(chunks)
        if observable(w) != ref_obs or final_key(w) != ref_key:
            bad.append(cuts)
            if len(bad) > 2:
                break
    return name, hi - lo, bad


# ---------------------------------------------------------------------------------- long streams

def long_cases(quick):
    """(name, packets, list of cut lists) for the 3- and 4-byte remaining length."""
    out = []
    for size, label in ((16384, 'len3'),) + (((2097152, 'len4'),)):
        big = rc.enc_publish('big', bytes(size), 1, False, False, 21)
        pkts = [rc.enc_publish('in/pre', b'x', 0), big, rc.enc_pingresp()]
        data_len = sum(len(p) for p in pkts)
        b0, b1 = len(pkts[0]), len(pkts[0]) + len(big)
        region = sorted(set(list(range(1, b0 + 9)) + list(range(b1 - 2, min(data_len, b1 + 2))) + [b0 + 100, b1 - 100]))
        cutsets = []
        if size == 16384:
            ones = range(1, data_len) if not quick else list(range(1, 40)) + list(range(40, data_len, 97)) + list(range(data_len - 8, data_len))
            cutsets += [[c] for c in ones]
        else:
            cutsets += [[c] for c in region]
        cutsets += [list(c) for c in itertools.combinations(region, 2)]
        if not quick or size == 16384:
            cutsets += [list(c) for c in itertools.combinations(region[:12] + region[-4:], 3)]
        cutsets.append(list(range(1, b0 + 9)))          # header region byte at a time
        out.append((label, pkts, cutsets))
    return out


_LONG = {}


def _long(args):
    label, lo, hi = args
    pkts, cutsets = _LONG[label]
    data = b''.join(pkts)
    n = len(data)
    try:
        ref = deliver(pkts, limit=15)
    except TooSlow:
        return label, hi - lo, [['timeout', n]]
    ref_obs, ref_key = observable(ref), final_key(ref)
    bad = []
    for cs in cutsets[lo:hi]:
        cuts = list(cs) + [n]
        chunks = [data[a:b] for a, b in zip([0] + cuts[:-1], cuts)]
        try:
            w = deliver(chunks, limit=15)
        except TooSlow:
            bad.append(['timeout'] + cuts)
            break
        if observable(w) != ref_obs or final_key(w) != ref_key:
            bad.append(cuts)
            if len(bad) > 2:
                break
    return label, hi - lo, bad


CONNECTING_BASE = (('connect', 0, True, 0, 4), ('pub', 0, 1))
CONNECTING_STREAM = [rc.enc_connack(False, 0), rc.enc_ack('PUBACK', 1), rc.enc_publish('a', b'x', 0)]


def _connecting_deliver(chunks):
    from ..world import World
    w = World(dict(profile='pubsub', mode='sync'))
    for ev in CONNECTING_BASE:
        w.apply(ev)
    w.base_mark = len(w.obs)
    for c in chunks:
        w.apply(('raw', 0, c))
    return w


def _connecting_brute(args):
    lo, hi = args
    data = b''.join(CONNECTING_STREAM)
    n = len(data)
    ref = _connecting_deliver(CONNECTING_STREAM)
    ref_obs, ref_key = observable(ref), final_key(ref)
    bad = []
    for mask in range(lo, hi):
        cuts = [i + 1 for i in range(n - 1) if mask >> i & 1] + [n]
        w = _connecting_deliver([data[a:b] for a, b in zip([0] + cuts[:-1], cuts)])
        if observable(w) != ref_obs or final_key(w) != ref_key:
            bad.append(cuts)
            if len(bad) > 2:
                break
    return hi - lo, bad


def handshake_stream(ctx, pool):
    """The broker's first segment(s): CONNACK followed at once by more packets (a resumed session, or the PUBACK of a
    message published before CONNACK), from the CONNECTING state, in every composition."""
    ref = _connecting_deliver(CONNECTING_STREAM)
    obs = observable(ref)
    kinds = [(o[0], o[1]) if o[0] != 'fire' else ('fire', o[1], o[2]) for o in obs]
    want = [('cb', 'onMqttConnectionMade'), ('fire', 0, 'ok'), ('fire', 1, 'ok'), ('cb', 'onPublish')]
    if sorted(map(repr, kinds[:2])) != sorted(map(repr, want[:2])) or kinds[2:] != want[2:]:
        ctx.violation({'kind': 'framing', 'signature': 'whole-packet-delivery-wrong/handshake',
                       'detail': 'CONNACK, PUBACK, PUBLISH one per chunk from CONNECTING: actions %r, expected %r' % (kinds, want),
                       'history': [['stream', 'handshake'], ['cuts', [4, 8, 14]]], 'scenario': {'name': 'handshake', 'stream': 'handshake'}})
    n = sum(len(p) for p in CONNECTING_STREAM)
    total = 2 ** (n - 1)
    cnt = 0
    for k, bad in pool.imap_unordered(_connecting_brute, [(a, min(total, a + 512)) for a in range(0, total, 512)]):
        cnt += k
        for cuts in bad[:1]:
            ctx.violation({'kind': 'framing', 'signature': 'brute-force-differs/handshake',
                           'detail': 'CONNACK+PUBACK+PUBLISH from CONNECTING cut at %r behaves differently from whole-packet delivery' % (cuts,),
                           'history': [['stream', 'handshake'], ['cuts', cuts]], 'scenario': {'name': 'handshake', 'stream': 'handshake'}})
    return cnt


def cross_connection(ctx):
    """The reassembly state belongs to ONE connection: (a) a connection lost in the middle of a packet must not
    leak its partial packet into the next connection; (b) a partial packet on address A must not be completed or
    disturbed by data arriving on address B."""
    n = 0
    pkts = packets_all()
    data = b''.join(pkts)
    probe = rc.enc_publish('after/reconnect', b'ok', 0)
    for k in range(1, len(data)):
        w = base_world()
        for ev in (('raw', 0, data[:k]), ('lose', 0, 'done'), ('rebuild', 0), ('connect', 0, True, 0, 4), ('connack', 0, 0, False),
                   ('raw', 0, probe)):
            w.apply(ev)
        n += 1
        c = w.conn(0)
        conn_req = w.reqs[c.connect_req]
        got = [o for o in w.new_obs() if o[0] == 'cb' and o[1] == 'onPublish']
        if not conn_req.ok or len(got) != 1 or got[0][3][0] != 'after/reconnect' or c.close_req is not None:
            ctx.violation({'kind': 'framing', 'signature': 'partial-packet-leaks-into-next-connection',
                           'detail': 'connection lost after %d bytes of the stream; on the next connection CONNACK/PUBLISH were not '
                                     'processed normally (connect ok=%s, deliveries=%d, closed=%s)' % (k, conn_req.ok, len(got), c.close_req),
                           'history': [['stream', 'all-types'], ['cuts', [k]]], 'scenario': {'name': 'cross', 'stream': 'reconnect'}})
            break
    from ..world import World
    pa = rc.enc_publish('to/a', b'A' * 20, 1, False, False, 5)
    pb = rc.enc_publish('to/b', b'B' * 3, 1, False, False, 6)
    for k in range(1, len(pa)):
        for j in range(0, len(pb)):
            w = World(dict(profile='sub', mode='sync', naddr=2))
            for ev in (('connect', 0, True, 0, 4), ('connack', 0, 0, False), ('connect', 1, True, 0, 3), ('connack', 1, 0, False)):
                w.apply(ev)
            mark = len(w.obs)
            seq = [('raw', 0, pa[:k])]
            if j:
                seq += [('raw', 1, pb[:j]), ('raw', 0, pa[k:]), ('raw', 1, pb[j:])]
            else:
                seq += [('raw', 1, pb), ('raw', 0, pa[k:])]
            for ev in seq:
                w.apply(ev)
            n += 1
            acts = [o for o in w.obs[mark:] if o[0] in ('cb', 'w', 'close', 'exc')]
            flat = []
            for o in acts:
                if o[0] == 'w':
                    flat += [('w', o[1], p['raw']) for p in o[5]]
                else:
                    flat.append(o[:4])
            want_a = [('w', 0, rc.enc_ack('PUBACK', 5)), ('cb', 'onPublish', 0, ('to/a', b'A' * 20, 1, False, False, 5))]
            want_b = [('w', 1, rc.enc_ack('PUBACK', 6)), ('cb', 'onPublish', 1, ('to/b', b'BBB', 1, False, False, 6))]
            got_a = [x for x in flat if x[1] == 0 or x[2] == 0]
            got_b = [x for x in flat if x[1] == 1 or x[2] == 1]
            if [x for x in flat if (x[0] == 'w' and x[1] == 0) or (x[0] == 'cb' and x[2] == 0)] != want_a or \
               [x for x in flat if (x[0] == 'w' and x[1] == 1) or (x[0] == 'cb' and x[2] == 1)] != want_b or \
               any(x[0] in ('close', 'exc') for x in flat):
                ctx.violation({'kind': 'framing', 'signature': 'connections-share-reassembly-state',
                               'detail': 'A got %d of %d bytes, then B got data, then A the rest: actions %r' % (k, len(pa), flat[:6]),
                               'history': [['stream', 'two-addresses'], ['cuts', [k, j]]], 'scenario': {'name': 'cross', 'stream': 'two-addresses'}})
                ctx.executions += n
                return n
    ctx.executions += n
    return n


def run(ctx):
    from ..explorer import PrefixBroken
    try:
        return _run(ctx)
    except PrefixBroken as e:
        ctx.violation({'kind': 'framing', 'signature': 'base-history-misbehaves', 'detail': str(e),
                       'history': [['stream', 'base'], ['cuts', []]], 'scenario': {'name': 'ref', 'stream': 'all-types'}})


def _run(ctx):
    ctx.rule = ('all 2^(n-1) compositions of streams holding every broker packet type, by dynamic programming over cut '
                'positions on the real dataReceived (S_j = distinct (state, actions) after bytes[0:j) in any chunking); '
                'brute force over all compositions of short streams; 1/2/3-cut placements and byte-at-a-time header '
                'delivery for 3- and 4-byte remaining lengths')
    dps = []
    perms = [('all-types', packets_all()),
             ('len2', LEN2)]
    if not ctx.quick:
        p = packets_all()
        perms.append(('all-types-200B', packets_all(b'p' * 200)))
        perms.append(('all-types-reversed', list(reversed(p))))
        perms.append(('all-types-rotated', p[5:] + p[:5]))
        perms.append(('all-types-async', p))
    for name, pkts in perms:
        mode = 'async' if name.endswith('async') else 'sync'
        r = dp_stream(ctx, name, pkts, mode=mode)
        dps.append(r)
        ctx.states += r['states']
        ctx.transitions += r['transitions']
        ctx.executions += r['transitions']
        for k, v in r['witnesses'].items():
            ctx.witness[k] = ctx.witness.get(k, 0) + v
        ctx.log('[C03] dp %-22s bytes=%d transitions=%d states=%d max|S_k|=%d' % (name, r['bytes'], r['transitions'], r['states'], r['max_S']))
    ctx.extra['dp'] = dps
    ctx.samples.append({'stream': 'all-types', 'chunks': 'bytes[0:1] | bytes[1:3] | bytes[3:70] (one member of the 2^69 compositions)'})
    n_brute = 0
    tasks = []
    for name, pkts in SHORT.items():
        check_reference(ctx, name, pkts, observable(deliver(pkts)))
        n = sum(len(p) for p in pkts)
        if n > 15:
            raise RuntimeError('short stream %s too long' % name)
        total = 2 ** (n - 1)
        step = 512
        tasks += [(name, a, min(total, a + step)) for a in range(0, total, step)]
    for label, pkts, cutsets in long_cases(ctx.quick):
        _LONG[label] = (pkts, cutsets)
        try:
            check_reference(ctx, label, pkts, observable(deliver(pkts, limit=15)))
        except TooSlow:
            ctx.violation({'kind': 'framing', 'signature': 'delivery-does-not-return/%s' % label,
                           'detail': 'whole-packet delivery of stream %s did not return within 15 s' % label,
                           'history': [['stream', label], ['cuts', []]], 'scenario': {'name': 'long', 'stream': label}})
            del _LONG[label]
    ltasks = []
    for label, (pkts, cutsets) in _LONG.items():
        step = 200 if label == 'len3' else 8
        ltasks += [(label, a, min(len(cutsets), a + step)) for a in range(0, len(cutsets), step)]
    n_long = 0
    with mp.get_context('fork').Pool(min(16, os.cpu_count() or 1)) as pool:
        n_brute += handshake_stream(ctx, pool)
        for name, k, bad in pool.imap_unordered(_brute, tasks):
            n_brute += k
            for cuts in bad[:1]:
                ctx.violation({'kind': 'framing', 'signature': 'brute-force-differs/%s' % name,
                               'detail': 'stream %s cut at %r behaves differently from whole-packet delivery' % (name, cuts),
                               'history': [['stream', name], ['cuts', cuts]], 'scenario': {'name': 'brute', 'stream': name}})
        for label, k, bad in pool.imap_unordered(_long, ltasks):
            n_long += k
            for cuts in bad[:1]:
                if cuts and cuts[0] == 'timeout':
                    ctx.violation({'kind': 'framing', 'signature': 'delivery-does-not-return/%s' % label,
                                   'detail': 'delivery of stream %s cut at %r did not return within 15 s' % (label, cuts[1:7]),
                                   'history': [['stream', label], ['cuts', cuts[1:41]]], 'scenario': {'name': 'long', 'stream': label}})
                    continue
                ctx.violation({'kind': 'framing', 'signature': 'long-stream-differs/%s' % label,
                               'detail': 'stream %s cut at %r behaves differently from whole-packet delivery' % (label, cuts[:6]),
                               'history': [['stream', label], ['cuts', cuts[:40]]], 'scenario': {'name': 'long', 'stream': label}})
    ctx.executions += n_brute + n_long
    ctx.add_enum(n_brute + n_long, n_brute + n_long, [{'stream': 'acks', 'cuts': [1, 2, 3, 14]}])
    ctx.extra['cross_connection_cases'] = cross_connection(ctx)
    ctx.extra['brute_force_compositions'] = n_brute
    ctx.extra['long_stream_cut_sets'] = n_long
    ctx.assumptions = ['merging in the DP relies on the key being the full generic state dump + the action list',
                       'well-formed packets only']


def replay(rec):
    sc = rec['scenario']
    name = sc['stream']
    if sc['name'] == 'handshake':
        data = b''.join(CONNECTING_STREAM)
        cuts = rec['history'][1][1]
        ref = _connecting_deliver(CONNECTING_STREAM)
        w = _connecting_deliver([data[a:b] for a, b in zip([0] + cuts[:-1], cuts)])
        print(observable(w)); print(observable(ref))
        if observable(w) != observable(ref) or final_key(w) != final_key(ref) or 'whole-packet' in rec['signature']:
            print('VIOLATION property=%s replay=%s' % (PROP, rec['_path']))
            return 1
        return 0
    if sc['name'] == 'cross':
        class _C2(object):
            executions = 0
            v = []
            def violation(self, x):
                self.v.append(x)
        c2 = _C2()
        cross_connection(c2)
        for x in c2.v:
            print(x['signature'], x['detail'])
        if c2.v:
            print('VIOLATION property=%s replay=%s' % (PROP, rec['_path']))
        return 1 if c2.v else 0
    if sc['name'] == 'ref':
        class _C(object):
            v = []
            def violation(self, x):
                self.v.append(x)
        allp = dict(SHORT)
        allp.update({'all-types': packets_all(), 'len2': LEN2})
        allp.update(dict((l, p) for l, p, c in long_cases(True)))
        c = _C()
        check_reference(c, name, allp[name], observable(deliver(allp[name])))
        for x in c.v:
            print(x['detail'])
        if c.v:
            print('VIOLATION property=%s replay=%s' % (PROP, rec['_path']))
        return 1 if c.v else 0
    if sc['name'] == 'dp':
        pk = {'all-types': packets_all(), 'len2': LEN2, 'all-types-200B': packets_all(b'p' * 200), 'all-types-reversed': list(reversed(packets_all())),
              'all-types-rotated': packets_all()[5:] + packets_all()[:5], 'all-types-async': packets_all()}[name]
    elif sc['name'] == 'brute':
        pk = SHORT[name]
    else:
        pk = dict((l, p) for l, p, c in long_cases(True))[name]
    data = b''.join(pk)
    cuts = rec['history'][1][1]
    if cuts[-1] != len(data):
        cuts = cuts + [len(data)]
    mode = sc.get('mode', 'sync')
    ref = deliver(pk, mode=mode)
    w = deliver([data[a:b] for a, b in zip([0] + cuts[:-1], cuts)], mode=mode)
    a, b = observable(w), observable(ref)
    for i in range(max(len(a), len(b))):
        x, y = (a[i] if i < len(a) else None), (b[i] if i < len(b) else None)
        print('%s %r | %r' % ('  ' if x == y else '!=', x if x is None or x[0] != 'w' else x[:2] + (x[2][:12].hex(),), y if y is None or y[0] != 'w' else y[:2] + (y[2][:12].hex(),)))
    if a != b or final_key(w) != final_key(ref):
        print('VIOLATION property=%s replay=%s' % (PROP, rec['_path']))
        return 1
    return 0
