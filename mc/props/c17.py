"""C17 -- packet identifiers are 1..65535 and never shared by two unfinished requests."""
import time

from .. import refcodec as rc
from ..monitor import Monitor, V, writes
from ..scen import Std
from ..world import World

PROP = 'C17'


class Mon(Monitor):
    stateless = True

    def step(self, w):
        out = []
        for o in w.new_obs():
            if o[0] == 'ret' and o[1] >= 0 and o[2] == 'deferred':
                r = w.reqs[o[1]]
                if r.kind not in ('pub', 'sub', 'unsub') or (r.kind == 'pub' and not r.qos):
                    continue
                m = r.msgId
                if m is None and r.failed and r.fires[0][0] == r.call_step:
                    continue        # refused call (window full, bad argument): no identifier handed out
                if not isinstance(m, int) or not (1 <= m <= 65535):
                    out.append(V('range', 'id-out-of-range/%s' % r.kind, 'request %d got identifier %r' % (r.idx, m)))
                    continue
                self.see('id-issued' + ('-after-wrap' if m < 100 and w.factory(r.addr).id < 100 and
                                         any(e[0] == 'setid' for e in w.hist) else ''))
                for e in w.reqs:
                    if e is r or e.kind not in ('pub', 'sub', 'unsub') or e.msgId != m:
                        continue
                    if w.factory(e.addr) is not w.factory(r.addr):
                        continue
                    # unfinished = its Deferred was pending when the new identifier was handed out
                    if e.ret == 'deferred' and (not e.fires or e.fires[0][0] >= w.step and
                                                self._fired_after_call(w, e, r)):
                        stage = 'held-back' if not e.tx else ('released' if e.rel_tx else 'sent')
                        if e.conn != w.cur[e.addr]:
                            stage += '-earlier-connection'
                        out.append(V('collision', 'collision/%s-vs-%s/%s%s' % (
                            r.kind, e.kind, stage, '/other-address' if e.addr != r.addr else ''),
                            'new %s request %d got identifier %d, still carried by unfinished %s request %d (%s)' % (
                                r.kind, r.idx, m, e.kind, e.idx, stage)))
        for ci, p, o in writes(w):
            if p['type'] in ('PUBLISH', 'PUBREL', 'SUBSCRIBE', 'UNSUBSCRIBE'):
                if p['type'] == 'PUBLISH' and not p['qos']:
                    continue
                if not (1 <= (p['msgId'] or 0) <= 65535):
                    out.append(V('range', 'wire-id-out-of-range/%s' % p['type'], '%s carries identifier %r' % (p['type'], p['msgId'])))
        return out

    def _fired_after_call(self, w, e, r):
        # both in this step: e fired in the same step in which r was called; order from the observation log
        seen_call = False
        for o in w.new_obs():
            if o[0] == 'call' and o[1] == r.idx:
                seen_call = True
            if o[0] == 'fire' and o[1] == e.idx:
                return seen_call
        return False

    def outcome(self, w):
        return tuple(r.msgId for r in w.reqs if r.kind != 'connect')


def stage_prefix(persist_loss):
    """One unfinished request per stage: ids 1 (awaiting PUBACK), 2 (awaiting PUBCOMP), 3 (awaiting PUBREC),
    4 (awaiting PUBACK), 5 (held back), 6 (awaiting SUBACK), 8 (awaiting UNSUBACK; 7 is burnt)."""
    ev = [('connect', 0, False, 0, 4), ('connack', 0, 0, False), ('setwin', 0, 3),
          ('pub', 0, 1), ('pub', 0, 2), ('ack', 0, 'PUBREC', ('r', 2)), ('pub', 0, 2), ('pub', 0, 1), ('pub', 0, 1),
          ('sub', 0, 'str'), ('unsub', 0, 'str')]
    if persist_loss:
        ev += [('lose', 0, 'lost'), ('rebuild', 0), ('connect', 0, False, 0, 4), ('connack', 0, 0, False),
               ('setwin', 0, 3)]
    return tuple(ev)


def scenarios(ctx):
    q = ctx.quick
    out = []
    starts = (65533, 65535) if q else (65530, 65531, 65532, 65533, 65534, 65535)
    for persist_loss in (False, True):
        for id0 in starts:
            if q and persist_loss and id0 != 65533:
                continue
            init = stage_prefix(persist_loss) + (('setid', 0, id0),)
            out.append(Std('wrap-%d%s' % (id0, '-resumed' if persist_loss else ''), profile='pubsub', init=init,
                           connects=[(False, 0, 4)], pub_qos=(1, 2), closing=False,
                           budgets=dict(pub=8 if not q else 4, sub=1, unsub=1, ack=1 if q else 2, misack=1)))
    for id0 in ((65535,) if q else (65535, 0, 65534)):
        out.append(Std('wrap-heldback-w1-%d' % id0, profile='pubsub', closing=False,
                       init=(('connect', 0, True, 0, 4), ('connack', 0, 0, False), ('pub', 0, 2), ('pub', 0, 1), ('pub', 0, 2),
                             ('ack', 0, 'PUBREC', ('r', 1)), ('setid', 0, id0)),
                       pub_qos=(1, 2), budgets=dict(pub=3, sub=1, unsub=1, ack=2)))
    out.append(Std('wrap-window16', profile='pubsub', closing=False,
                   init=(('connect', 0, False, 0, 3), ('connack', 0, 0, False), ('setwin', 0, 16)) + (('pub', 0, 1),) * 16 +
                        (('setid', 0, 65535),),
                   pub_qos=(1,), budgets=dict(pub=1, sub=2, unsub=1, ack=1)))
    out.append(Std('wrap-queue-q0', profile='pub', closing=False,
                   init=(('connect', 0, True, 0, 4), ('connack', 0, 0, False), ('pub', 0, 1), ('pub', 0, 1), ('pub', 0, 0), ('pub', 0, 1),
                         ('setid', 0, 65535)),
                   pub_qos=(1,), budgets=dict(pub=3, ack=1)))
    out.append(Std('reenter-purge', profile='pub', closing=False, reenter=('err:pub>pub',),
                   init=(('connect', 0, False, 0, 4), ('connack', 0, 0, False), ('setwin', 0, 2)),
                   connects=[(False, 0, 4)], reconnects=[(True, 0, 4)], pub_qos=(1,), windows=(2,),
                   budgets=dict(pub=3, ack=1, setid=1, setwin=1, lose=1, rebuild=1, connect=1, connack=1)))
    out.append(Std('reenter-purge-all', profile='pub', closing=False, reenter=('err:pub>pub',), reenter_max=3,
                   init=(('connect', 0, False, 0, 4), ('connack', 0, 0, False), ('setwin', 0, 2)),
                   connects=[(False, 0, 4)], reconnects=[(True, 0, 4)], pub_qos=(1,), windows=(2,),
                   budgets=dict(pub=3, ack=1, setid=1, lose=1, rebuild=1, connect=1, connack=1)))
    out.append(Std('two-addresses', profile='pubsub', naddr=2, closing=False,
                   init=(('connect', 0, True, 0, 4), ('connack', 0, 0, False), ('connect', 1, True, 0, 4),
                         ('connack', 1, 0, False), ('pub', 0, 1), ('pub', 0, 2), ('sub', 0, 'str'), ('pub', 1, 1),
                         ('setid', 0, 65534)),
                   pub_qos=(1,), budgets=dict(pub=4 if q else 5, sub=1, unsub=1, ack=1 if q else 2)))
    out.append(Std('from-zero', profile='pubsub', init=(('connect', 0, True, 0, 4), ('connack', 0, 0, False), ('setwin', 0, 2)),
                   closing=False, pub_qos=(0, 1, 2),
                   budgets=dict(pub=3 if not q else 2, sub=1, unsub=1, ack=2 if not q else 1, dack=1, tick=1)))
    return out


def long_run(ctx, n=70000):
    """One deterministic execution that wraps the counter on its own while an old request stays unfinished."""
    t0 = time.time()
    w = World(dict(profile='pub', mode='sync'))
    for ev in (('connect', 0, True, 0, 4), ('connack', 0, 0, False), ('setwin', 0, 2)):
        w.apply(ev)
    proto = w.conn(0).proto
    old = proto.publish(topic='old', message='m', qos=1)
    unfinished = {old.msgId: 'old'}
    issued = 0
    for i in range(n):
        d = proto.publish(topic='t', message='m', qos=1 + (i % 2))
        mid = d.msgId
        issued += 1
        if not isinstance(mid, int) or not (1 <= mid <= 65535):
            ctx.violation({'kind': 'range', 'signature': 'long-run/id-out-of-range', 'detail': 'request #%d got %r' % (i, mid),
                           'history': [['long_run', i]], 'scenario': {'name': 'long-run'}})
            break
        if mid in unfinished:
            ctx.violation({'kind': 'collision', 'signature': 'long-run/collision-after-wrap',
                           'detail': 'request #%d got identifier %d, still carried by the unfinished first request' % (i, mid),
                           'history': [['long_run', i]], 'scenario': {'name': 'long-run'}})
            break
        if i % 2 == 0:
            proto.dataReceived(rc.enc_ack('PUBACK', mid))
        else:
            proto.dataReceived(rc.enc_ack('PUBREC', mid))
            proto.dataReceived(rc.enc_ack('PUBCOMP', mid))
        if not d.called:
            raise RuntimeError('long run: request %d not completed' % i)
    if old.called:
        raise RuntimeError('long run: the old request was completed?')
    ctx.extra['long_run'] = {'requests': issued, 'wrapped': issued > 65535, 'wall_s': round(time.time() - t0, 1)}
    ctx.executions += 1


def replay(rec):
    if rec['scenario']['name'] == 'long-run':
        from ..run import Ctx
        c = Ctx(PROP, 'quick', 0)
        long_run(c)
        print(c.violations or 'no violation on this tree')
        return 1 if c.violations else 0
    from .. import replay as rp
    import sys
    mod = sys.modules[__name__]
    delattr(mod, 'replay')
    try:
        return rp.main(mod, PROP, rec['_path'])
    finally:
        setattr(mod, 'replay', replay)


def run(ctx):
    ctx.rule = ('BFS over request/ack histories started near the 16-bit wrap with one unfinished request per stage; '
                'plus one deterministic 70000-request execution')
    for scn in scenarios(ctx):
        ctx.explore(scn, Mon, closing=False)
    long_run(ctx)
    ctx.assumptions = ['the counter is placed near the wrap by writing the public attribute factory.id']
